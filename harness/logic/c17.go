package logic

import (
	"time"

	"github.com/q191201771/lal/pkg/base"
	vrt "github.com/q191201771/lal/pkg/zzvrt"
)

// c17Spec is the statement's rule written independently of the implementation.
func c17Spec(enabled, hasIn, inFlight, hasOut bool, retryNum, startCount, autoStopMs int, lastHasOutMs, nowMs int64) (start bool, autoStop bool) {
	autoStop = false
	if autoStopMs >= 0 && !hasOut {
		if autoStopMs == 0 {
			autoStop = true
		} else if lastHasOutMs != -1 && nowMs-lastHasOutMs >= int64(autoStopMs) {
			autoStop = true
		}
	}
	budget := retryNum < 0 || startCount <= retryNum
	start = enabled && !hasIn && !inFlight && budget && !autoStop
	return
}

// VerifC17PullPredicate: the start / auto-stop predicates for every value of the relay-pull state.
func VerifC17PullPredicate() {
	cfg := kitConfig()
	vrt.ConcreteClock(1700000000000000000, 0) // every reading is the same instant
	g := NewGroup("live", "s1", cfg, GroupOption{}, &kitGroupObserver{})
	pp := g.pullProxy
	pp.staticRelayPullEnable = vrt.Bool("static")
	pp.apiEnable = vrt.Bool("api")
	pp.pullRetryNum = vrt.Int("retry")
	pp.startCount = vrt.Int("count")
	pp.autoStopPullAfterNoOutMs = vrt.Int("autostop")
	pp.lastHasOutTs = vrt.I64("lastout")
	pp.isSessionPulling = vrt.Bool("inflight")
	vrt.Assume(pp.pullRetryNum > -1000 && pp.pullRetryNum < 1000 && pp.startCount >= 0 && pp.startCount < 1000)
	vrt.Assume(pp.autoStopPullAfterNoOutMs > -10 && pp.autoStopPullAfterNoOutMs < 1<<30)
	vrt.Assume(pp.lastHasOutTs >= -1 && pp.lastHasOutTs < 1<<50)
	hasIn := vrt.Param("in") == 1
	hasOut := vrt.Param("out") == 1
	if hasIn {
		s, _ := kitRtmpSession()
		vrt.Assert(g.AddRtmpPubSession(s) == nil, "publisher accepted")
	}
	if hasOut {
		s, _ := kitRtmpSession()
		g.rtmpSubSessionSet[s] = struct{}{}
	}
	nowMs := time.Now().UnixNano() / 1e6
	wantStart, wantStop := c17Spec(pp.staticRelayPullEnable || pp.apiEnable, hasIn, pp.isSessionPulling, hasOut, pp.pullRetryNum, pp.startCount, pp.autoStopPullAfterNoOutMs, pp.lastHasOutTs, nowMs)
	gotStart, _ := g.shouldStartPull()
	vrt.Assert(gotStart == wantStart, "a pull is attempted exactly when the rule allows it")
	vrt.Assert(g.shouldAutoStopPull() == wantStop, "auto-stop exactly when no consumer has been present for the window")
	vrt.Cover("end")
}

// VerifC17PullEvents: short histories of API start/stop, ticks and subscriber arrivals: an attempt is
// started only when the rule allows it and the API reports what happened.
func VerifC17PullEvents() {
	cfg := kitConfig()
	vrt.ConcreteClock(1700000000000000000, 1000000)
	g := NewGroup("live", "s1", cfg, GroupOption{}, &kitGroupObserver{})
	steps := vrt.Param("steps")
	for s := 0; s < steps; s++ {
		pp := g.pullProxy
		pre := *pp
		hasIn, hasOut := g.hasInSession(), g.hasOutSession()
		nowMs := time.Now().UnixNano() / 1e6
		op := vrt.Pick(vrt.Range("op", 0, 4))
		switch op {
		case 0: // API start
			retry := vrt.Pick(vrt.Range("retry", -1, 1))
			auto := vrt.Pick(vrt.Range("auto", -1, 1))
			id, err := g.StartPull(base.ApiCtrlStartRelayPullReq{Url: "rtmp://127.0.0.1:1/live/s1", PullTimeoutMs: 100, PullRetryNum: retry, AutoStopPullAfterNoOutMs: auto})
			want, _ := c17Spec(true, hasIn, pre.isSessionPulling, hasOut, retry, pre.startCount, auto, pre.lastHasOutTs, nowMs)
			vrt.Assert((err == nil && id != "") == want, "API start reports a session id exactly when an attempt was started")
			vrt.Assert(pp.isSessionPulling == (pre.isSessionPulling || want), "attempt in flight iff started")
			if want {
				vrt.Assert(pp.startCount == pre.startCount+1, "attempt counted")
			}
		case 1: // API stop
			_ = g.StopPull()
			vrt.Assert(!pp.apiEnable && pp.startCount == 0, "API stop disables the pull and resets the budget")
		case 2: // tick
			g.mutex.Lock()
			g.tickPullModule()
			g.mutex.Unlock()
			want, _ := c17Spec(pre.staticRelayPullEnable || pre.apiEnable, hasIn, pre.isSessionPulling, hasOut, pre.pullRetryNum, pre.startCount, pre.autoStopPullAfterNoOutMs, pp.lastHasOutTs, time.Now().UnixNano()/1e6)
			_ = want
			if !(pre.staticRelayPullEnable || pre.apiEnable) || hasIn || pre.isSessionPulling {
				vrt.Assert(pp.isSessionPulling == pre.isSessionPulling && pp.startCount <= pre.startCount, "no attempt while disabled, fed or in flight")
			}
		case 3: // a subscriber arrives
			sub, _ := kitRtmpSession()
			g.AddRtmpSubSession(sub)
			if !(pre.staticRelayPullEnable || pre.apiEnable) {
				// an attempt started earlier may still be in flight after an API stop; the arrival starts none
				vrt.Assert(pp.isSessionPulling == pre.isSessionPulling && pp.startCount == pre.startCount, "a subscriber does not start a pull that is not enabled")
			}
		case 4: // the in-flight attempt fails
			if pre.isSessionPulling && !g.hasPullSession() {
				g.mutex.Lock()
				g.resetRelayPullSession()
				g.mutex.Unlock()
			}
		}
		if pp.pullRetryNum >= 0 && (pp.staticRelayPullEnable || pp.apiEnable) {
			vrt.Assert(pp.startCount <= pp.pullRetryNum+1, "retry budget respected")
		}
	}
	vrt.Cover("end")
}
