package remux

import (
	"github.com/q191201771/lal/pkg/base"
	"github.com/q191201771/lal/pkg/rtprtcp"
	"github.com/q191201771/lal/pkg/sdp"
	vrt "github.com/q191201771/lal/pkg/zzvrt"
)

// ---- reference RTP reader (RFC 3550 5.1) and depacketisers (RFC 6184 5.8, RFC 7798 4.4.3, RFC 3640 3.3.6) ----

type c06Rtp struct {
	ok      bool
	marker  bool
	pt      uint8
	seq     uint16
	ts      uint32
	ssrc    uint32
	payload []byte
}

func c06ParseRtp(b []byte) c06Rtp {
	if len(b) < 12 || b[0] != 0x80 { // version 2, no padding, no extension, no CSRC: what a packer has to produce
		return c06Rtp{}
	}
	return c06Rtp{ok: true, marker: b[1]&0x80 != 0, pt: b[1] & 0x7f, seq: uint16(b[2])<<8 | uint16(b[3]),
		ts:   uint32(b[4])<<24 | uint32(b[5])<<16 | uint32(b[6])<<8 | uint32(b[7]),
		ssrc: uint32(b[8])<<24 | uint32(b[9])<<16 | uint32(b[10])<<8 | uint32(b[11]), payload: b[12:]}
}

// c06Depack turns the payloads of one track's packets (in sequence order) into NAL units.
func c06Depack(hevc bool, ps []c06Rtp) ([][]byte, []int, bool) {
	var nals [][]byte
	var lastPkt []int // index of the packet that completed each unit
	var cur []byte
	inFu := false
	for i, p := range ps {
		pl := p.payload
		if hevc {
			if len(pl) < 2 {
				return nil, nil, false
			}
			t := pl[0] >> 1 & 0x3f
			switch {
			case t < 48:
				if inFu {
					return nil, nil, false
				}
				nals = append(nals, pl)
				lastPkt = append(lastPkt, i)
			case t == 49:
				if len(pl) < 4 {
					return nil, nil, false
				}
				s, e := pl[2]&0x80 != 0, pl[2]&0x40 != 0
				if s == inFu || (s && e) {
					return nil, nil, false
				}
				if s {
					cur = []byte{pl[0]&0x81 | (pl[2]&0x3f)<<1, pl[1]}
					inFu = true
				}
				cur = append(cur, pl[3:]...)
				if e {
					nals = append(nals, cur)
					lastPkt = append(lastPkt, i)
					cur, inFu = nil, false
				}
			default:
				return nil, nil, false
			}
		} else {
			if len(pl) < 1 {
				return nil, nil, false
			}
			t := pl[0] & 0x1f
			switch {
			case t >= 1 && t <= 23:
				if inFu {
					return nil, nil, false
				}
				nals = append(nals, pl)
				lastPkt = append(lastPkt, i)
			case t == 28:
				if len(pl) < 3 {
					return nil, nil, false
				}
				s, e := pl[1]&0x80 != 0, pl[1]&0x40 != 0
				if s == inFu || (s && e) || pl[1]&0x20 != 0 {
					return nil, nil, false
				}
				if s {
					cur = []byte{pl[0]&0xe0 | pl[1]&0x1f}
					inFu = true
				}
				cur = append(cur, pl[2:]...)
				if e {
					nals = append(nals, cur)
					lastPkt = append(lastPkt, i)
					cur, inFu = nil, false
				}
			default:
				return nil, nil, false
			}
		}
	}
	return nals, lastPkt, !inFu
}

// c06RtpNal is a NAL unit of the given class whose bytes after the header are arbitrary (RTP carries
// units length-delimited, so no start-code emulation constraint applies).
func c06RtpNal(tag string, hevc bool, class, n int) []byte {
	nal := vrt.Bytes(tag, n)
	vrt.Assume(nal[0]&0x80 == 0)
	t := c06Type(hevc, nal[0])
	if hevc {
		if class == 4 {
			vrt.Assume(vrt.And(t < 48, !vrt.And(t >= 32, t <= 35)))
		} else {
			vrt.Assume(t == []uint8{19, 1, 39, 35}[class])
		}
	} else {
		if class == 4 {
			vrt.Assume(vrt.And(vrt.And(t >= 1, t <= 23), vrt.Or(t < 7, t > 9)))
		} else {
			vrt.Assume(t == []uint8{5, 1, 6, 9}[class])
		}
	}
	return nal
}

// VerifC06Rtsp: H.264/H.265 + AAC published over RTMP reach the RTSP side (SDP, then RTP) with the same
// NAL units and audio frames, RTP timestamps at the track's clock rate, marker on the last packet of
// each access unit, consecutive sequence numbers per track.
func VerifC06Rtsp() {
	hevc := vrt.Param("codec") == 1
	var pkts []rtprtcp.RtpPacket
	sdpN, sdpBeforeRtp := 0, true
	var ctx sdp.LogicContext
	r := NewRtmp2RtspRemuxer(func(c sdp.LogicContext) {
		sdpN++
		ctx = c
		if len(pkts) > 0 {
			sdpBeforeRtp = false
		}
	}, func(p rtprtcp.RtpPacket) {
		pkts = append(pkts, rtprtcp.RtpPacket{Header: p.Header, Raw: append([]byte{}, p.Raw...)})
	})
	if hevc {
		seq := c06HevcSeqHeader()
		r.FeedRtmpMsg(seq)
	} else {
		r.FeedRtmpMsg(c05AvcSeqHeader())
	}
	acodec := vrt.Param("acodec") // 0 AAC, 1 G.711A (no sequence header: the codec is learnt from the first audio message)
	if acodec == 0 {
		r.FeedRtmpMsg(c05AacSeqHeader())
		vrt.Assert(sdpN == 1, "SDP produced once both sequence headers are known")
	}

	l1, l2, l3 := vrt.Param("l1"), vrt.Param("l2"), vrt.Param("l3")
	cls := vrt.Param("cls")
	n1 := c06RtpNal("n1", hevc, cls%5, l1)
	n2 := c06RtpNal("n2", hevc, cls/5%5, l2)
	n3 := c06RtpNal("n3", hevc, 1, l3)
	ts1 := uint32(vrt.Param("ts1"))
	ts2 := ts1 + uint32(vrt.Param("dt"))
	r.FeedRtmpMsg(c06VideoMsg(hevc, ts1, true, uint32(vrt.Param("cts1")), [][]byte{n1, n2}))
	al := vrt.Param("alen")
	var afr []byte
	tsa := ts1 + 7
	if al > 0 {
		afr = vrt.Bytes("aac", al)
		p := append([]byte{0xaf, 1}, afr...)
		if acodec == 1 {
			p = append([]byte{0x72}, afr...)
		}
		r.FeedRtmpMsg(base.RtmpMsg{Header: base.RtmpHeader{Csid: 4, MsgLen: uint32(len(p)), MsgTypeId: 8, MsgStreamId: 1, TimestampAbs: tsa}, Payload: p})
	}
	r.FeedRtmpMsg(c06VideoMsg(hevc, ts2, false, 0, [][]byte{n3}))
	vrt.Assert(sdpN == 1 && sdpBeforeRtp, "exactly one SDP, before any RTP packet")
	_ = ctx

	var vp, ap []c06Rtp
	for _, p := range pkts {
		q := c06ParseRtp(p.Raw)
		vrt.Assert(q.ok, "RTP fixed header: version 2, no padding / extension / CSRC")
		if !q.ok {
			return
		}
		if q.pt == uint8(base.AvPacketPtAac) || q.pt == uint8(base.AvPacketPtG711A) {
			vrt.Assert((q.pt == uint8(base.AvPacketPtG711A)) == (acodec == 1), "audio payload type as announced")
			ap = append(ap, q)
		} else {
			wantPt := uint8(base.AvPacketPtAvc)
			if hevc {
				wantPt = uint8(base.AvPacketPtHevc)
			}
			vrt.Assert(q.pt == wantPt, "video payload type as announced")
			vp = append(vp, q)
		}
	}
	for i := 1; i < len(vp); i++ {
		vrt.Assert(vp[i].seq == vp[i-1].seq+1 && vp[i].ssrc == vp[0].ssrc, "video: consecutive sequence numbers, one SSRC")
	}
	nals, lastPkt, ok := c06Depack(hevc, vp)
	vrt.Assert(ok, "video packets depacketise (RFC 6184 / RFC 7798)")
	if !ok {
		return
	}
	// expected units: AUD dropped by the RTSP leg
	isAud := func(n []byte) bool {
		if hevc {
			return c06Type(true, n[0]) == 35
		}
		return c06Type(false, n[0]) == 9
	}
	var want [][]byte
	var wantTs []uint32
	var lastOfFrame []bool
	for _, n := range [][]byte{n1, n2} {
		if !isAud(n) {
			want = append(want, n)
			wantTs = append(wantTs, ts1*90)
			lastOfFrame = append(lastOfFrame, false)
		}
	}
	if len(lastOfFrame) > 0 {
		lastOfFrame[len(lastOfFrame)-1] = true
	}
	want = append(want, n3)
	wantTs = append(wantTs, ts2*90)
	lastOfFrame = append(lastOfFrame, true)
	vrt.Assert(len(nals) == len(want), "video: the published NAL units, each exactly once (AUD aside)")
	if len(nals) != len(want) {
		return
	}
	first := 0
	for i := range want {
		vrt.Assert(c06Eq(nals[i], want[i]), "video: NAL units byte for byte, in order")
		for j := first; j <= lastPkt[i]; j++ {
			vrt.Assert(vp[j].ts == wantTs[i], "video: RTP timestamp = 90 * published timestamp")
			vrt.Assert(vp[j].marker == (lastOfFrame[i] && j == lastPkt[i]), "video: marker on the last packet of the access unit only")
		}
		first = lastPkt[i] + 1
	}
	if al > 0 && acodec == 1 {
		// G.711A: RFC 3551, the frame is the payload, 8 kHz clock
		vrt.Assert(len(ap) == 1, "audio: one packet per G.711 frame")
		if len(ap) == 1 {
			vrt.Assert(c06Eq(ap[0].payload, afr), "audio: G.711 frame byte for byte")
			vrt.Assert(ap[0].ts == uint32(uint64(tsa)*8), "audio: RTP timestamp = 8 * published timestamp")
		}
		vrt.Cover("end")
		return
	}
	// audio: RFC 3640 AAC-hbr, one AU per packet
	if al > 0 {
		vrt.Assert(len(ap) == 1, "audio: one packet per AAC frame")
		if len(ap) == 1 {
			pl := ap[0].payload
			vrt.Assert(len(pl) == 4+al && pl[0] == 0 && pl[1] == 16, "audio: AU-headers-length = 16 bits")
			if len(pl) == 4+al {
				size := int(pl[2])<<5 | int(pl[3])>>3
				vrt.Assert(size == al && pl[3]&7 == 0, "audio: AU-size = frame length, AU-index 0")
				vrt.Assert(c06Eq(pl[4:], afr), "audio: frame byte for byte")
			}
			exact := uint64(tsa) * 44100 / 1000
			d := int64(uint64(ap[0].ts)) - int64(exact&0xffffffff)
			vrt.Assert(d >= -1 && d <= 1, "audio: RTP timestamp = published timestamp at the clock rate within one tick")
			vrt.Assert(ap[0].marker, "audio: marker set")
		}
	} else {
		vrt.Assert(len(ap) == 0, "no audio packets without audio frames")
	}
	vrt.Cover("end")
}
