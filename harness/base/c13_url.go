package base

import (
	vrt "github.com/q191201771/lal/pkg/zzvrt"
)

// VerifC13Url: URLs that reach lal from outside (HTTP-API start_relay_pull url, RTSP request URIs, HTTP
// request lines): scheme://host/ followed by n bytes over the alphabet that matters to the path / query
// splitting code ('/', '?', '.', ':', 'a', '%'). No parser panics.
func VerifC13Url() {
	n := vrt.Param("n")
	t := vrt.Bytes("u", n)
	for i := range t {
		c := t[i]
		vrt.Assume(c == '/' || c == '?' || c == '.' || c == ':' || c == 'a' || c == '%')
	}
	tail := string(t)
	switch vrt.Param("fn") {
	case 0:
		_, _ = ParseRtmpUrl("rtmp://h/" + tail)
	case 1:
		_, _ = ParseRtspUrl("rtsp://h/" + tail)
	case 2:
		_, _ = ParseHttpflvUrl("http://h/" + tail)
	case 3:
		_, _ = ParseUrl("http://h:80/"+tail, 80)
	}
	vrt.Cover("end")
}
