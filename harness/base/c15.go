package base

import (
	vkit "github.com/q191201771/lal/pkg/zzvkit"
	vrt "github.com/q191201771/lal/pkg/zzvrt"
)

// VerifC15HttpSubFraming: k Write calls on an HTTP sub-session (plain or WebSocket) whose connection
// rejects an arbitrary subset of the underlying writes (queue full). Whatever was accepted is still a
// concatenation of whole units, in order.
func VerifC15HttpSubFraming() {
	k := vrt.Param("k")
	n := vrt.Param("len")
	fc := &vkit.Conn{}
	fc.Reject = func(call int) bool { return vrt.Bool("reject") }
	s := &BasicHttpSubSession{conn: fc}
	s.IsWebSocket = vrt.Param("ws") == 1
	units := make([][]byte, k)
	for i := 0; i < k; i++ {
		units[i] = vrt.Bytes("unit", n)
		s.Write(units[i])
	}
	all := fc.All()
	next := 0 // units must appear in order, each at most once
	for len(all) > 0 {
		var payload []byte
		if s.IsWebSocket {
			h := refParseWsHeader(all)
			vrt.Assert(h.ok && h.fin && h.opcode == 2 && !h.masked, "accepted bytes start with a complete frame header")
			if !h.ok {
				return
			}
			vrt.Assert(uint64(len(all)-h.size) >= h.length, "the frame's declared payload was accepted too")
			if uint64(len(all)-h.size) < h.length {
				return
			}
			payload = all[h.size : h.size+int(h.length)]
			all = all[h.size+int(h.length):]
		} else {
			vrt.Assert(len(all) >= n, "whole unit")
			if len(all) < n {
				return
			}
			payload = all[:n]
			all = all[n:]
		}
		vrt.Assert(len(payload) == n, "unit length")
		// match against the next not-yet-seen unit (content is symbolic: compare with the unit whose
		// underlying write was accepted; units are distinguishable only by position, so check membership in order)
		found := false
		for next < k && !found {
			same := len(payload) == len(units[next])
			for j := 0; j < n; j++ { // no early exit: one decision per unit, not per byte
				same = vrt.And(same, payload[j] == units[next][j])
			}
			next++
			if same {
				found = true
			}
		}
		vrt.Assert(found, "every accepted unit is one of the written units, in order")
	}
	vrt.Cover("end")
}
