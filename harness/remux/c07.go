package remux

import (
	"github.com/q191201771/lal/pkg/base"
	"github.com/q191201771/lal/pkg/rtprtcp"
	vrt "github.com/q191201771/lal/pkg/zzvrt"
)

// ---- reference RTP packetiser (RFC 6184: single NAL unit, STAP-A, FU-A) ----

func c07Rtp(seq uint16, ts uint32, marker bool, pt uint8, payload []byte) rtprtcp.RtpPacket {
	b := []byte{0x80, pt, byte(seq >> 8), byte(seq), byte(ts >> 24), byte(ts >> 16), byte(ts >> 8), byte(ts), 0, 0, 0, 9}
	if marker {
		b[1] |= 0x80
	}
	b = append(b, payload...)
	p, err := rtprtcp.ParseRtpPacket(b)
	vrt.Assert(err == nil, "reference packet parses")
	return p
}

// c07PackNal packetises one NAL unit: single packet if it fits in max bytes, FU-A otherwise.
func c07PackNal(seq *uint16, ts uint32, last bool, nal []byte, max int) []rtprtcp.RtpPacket {
	var out []rtprtcp.RtpPacket
	if len(nal) <= max {
		out = append(out, c07Rtp(*seq, ts, last, 96, nal))
		*seq++
		return out
	}
	ind := nal[0]&0xe0 | 28
	typ := nal[0] & 0x1f
	rest := nal[1:]
	first := true
	for len(rest) > 0 {
		k := max - 2
		if k > len(rest) {
			k = len(rest)
		}
		h := typ
		if first {
			h |= 0x80
		}
		if k == len(rest) {
			h |= 0x40
		}
		pl := append([]byte{ind, h}, rest[:k]...)
		out = append(out, c07Rtp(*seq, ts, last && k == len(rest), 96, pl))
		*seq++
		rest = rest[k:]
		first = false
	}
	return out
}

var (
	c07HevcVps = []byte{0x40, 0x01, 0x0c, 0x01, 0xff, 0xff, 0x01, 0x60, 0x00, 0x00, 0x03, 0x00, 0x90, 0x00, 0x00, 0x03, 0x00, 0x00, 0x03, 0x00, 0x3f, 0xba, 0x02, 0x40}
	c07HevcSps = []byte{0x42, 0x01, 0x01, 0x01, 0x60, 0x00, 0x00, 0x03, 0x00, 0x90, 0x00, 0x00, 0x03, 0x00, 0x00, 0x03, 0x00, 0x3f, 0xa0, 0x05, 0x02, 0x01, 0x71, 0xf2, 0xe5, 0xba, 0x4a, 0x4c, 0x2f, 0x01, 0x01, 0x00, 0x00, 0x03, 0x00, 0x01, 0x00, 0x00, 0x03, 0x00, 0x0f, 0x08}
	c07HevcPps = []byte{0x44, 0x01, 0xc0, 0x73, 0xc1, 0x89}
)

// c07PackNalHevc packetises one H.265 NAL unit per RFC 7798: single NAL unit packet if it fits,
// fragmentation units (type 49) otherwise: PayloadHdr = NAL header with type 49, FU header = S|E|FuType,
// the two NAL header bytes are not repeated in the fragments.
func c07PackNalHevc(seq *uint16, ts uint32, last bool, nal []byte, max int) []rtprtcp.RtpPacket {
	var out []rtprtcp.RtpPacket
	if len(nal) <= max {
		out = append(out, c07Rtp(*seq, ts, last, 96, nal))
		*seq++
		return out
	}
	h0 := nal[0]&0x81 | 49<<1
	h1 := nal[1]
	typ := nal[0] >> 1 & 0x3f
	rest := nal[2:]
	first := true
	for len(rest) > 0 {
		k := max - 3
		if k > len(rest) {
			k = len(rest)
		}
		fu := typ
		if first {
			fu |= 0x80
		}
		if k == len(rest) {
			fu |= 0x40
		}
		pl := append([]byte{h0, h1, fu}, rest[:k]...)
		out = append(out, c07Rtp(*seq, ts, last && k == len(rest), 96, pl))
		*seq++
		rest = rest[k:]
		first = false
	}
	return out
}

// c07HvccSets is a reference reader of the hvcC arrays of an RTMP HEVC sequence header (ISO/IEC 14496-15).
func c07HvccSets(p []byte) (vps, sps, pps []byte, ok bool) {
	if len(p) < 28 || p[0] != 0x1c || p[1] != 0 || p[5] != 1 {
		return
	}
	n := int(p[27])
	i := 28
	for a := 0; a < n; a++ {
		if len(p) < i+3 {
			return
		}
		t := p[i] & 0x3f
		cnt := int(p[i+1])<<8 | int(p[i+2])
		i += 3
		for c := 0; c < cnt; c++ {
			if len(p) < i+2 {
				return
			}
			l := int(p[i])<<8 | int(p[i+1])
			i += 2
			if len(p) < i+l {
				return
			}
			switch t {
			case 32:
				vps = p[i : i+l]
			case 33:
				sps = p[i : i+l]
			case 34:
				pps = p[i : i+l]
			}
			i += l
		}
	}
	return vps, sps, pps, i == len(p)
}

type c07Sink struct{ msgs []base.RtmpMsg }

func (s *c07Sink) on(msg base.RtmpMsg) { s.msgs = append(s.msgs, msg.Clone()) }

// c07Nals parses a length-prefixed NAL list.
func c07Nals(b []byte) ([][]byte, bool) {
	var out [][]byte
	for len(b) > 0 {
		if len(b) < 4 {
			return out, false
		}
		n := int(b[0])<<24 | int(b[1])<<16 | int(b[2])<<8 | int(b[3])
		if n < 0 || len(b) < 4+n {
			return out, false
		}
		out = append(out, b[4:4+n])
		b = b[4+n:]
	}
	return out, true
}

// VerifC07Rtsp: an H.264 / H.265 elementary stream packetised by the reference packetiser (single NAL,
// FU-A / FU, optional in-band parameter sets by STAP-A / AP, optional extra unit before the IDR slice) and
// delivered in a symbolic order reaches the RTMP side with sequence header, NAL units byte for byte and
// key frames marked.
func VerifC07Rtsp() {
	nl := vrt.Param("nlen")
	max := vrt.Param("max")
	hevc := vrt.Param("codec") == 1
	sink := &c07Sink{}
	rm := NewAvPacket2RtmpRemuxer().WithOnRtmpMsg(sink.on)
	pt := base.AvPacketPtAvc
	if hevc {
		pt = base.AvPacketPtHevc
		rm.InitWithAvConfig(nil, c07HevcVps, c07HevcSps, c07HevcPps)
	} else {
		rm.InitWithAvConfig(nil, nil, c05Sps, c05Pps)
	}
	un := rtprtcp.DefaultRtpUnpackerFactory(pt, 90000, 1024, func(pkt base.AvPacket) { rm.FeedAvPacket(pkt) })
	pack := c07PackNal
	if hevc {
		pack = c07PackNalHevc
	}

	seq := vrt.U16("seq0")
	ts1 := uint32(vrt.Param("ts1"))
	idr := c06Nal("idr", hevc, 0, nl)
	slice := c06Nal("slice", hevc, 1, nl)
	var extra []byte // optional unit before the IDR slice in the first access unit: SEI (2) or arbitrary other type (4)
	if x := vrt.Param("x"); x > 0 {
		extra = c06Nal("extra", hevc, x, nl)
		// types that RTP reserves for its own payload structures cannot travel as single NAL unit packets
		// (RFC 6184 5.2: 24-29, 30-31 undefined; RFC 7798 4.4: 48-50, 51-63 unspecified)
		if hevc {
			vrt.Assume(c06Type(true, extra[0]) < 48)
		} else {
			vrt.Assume(c06Type(false, extra[0]) < 24)
		}
	}
	var pkts []rtprtcp.RtpPacket
	// anchor: an AUD as its own packet establishes the expected sequence number
	aud := []byte{0x09, 0xf0}
	if hevc {
		aud = []byte{0x46, 0x01, 0x50}
	}
	pkts0 := pack(&seq, ts1, false, aud, max+10)
	if vrt.Param("inband") == 1 {
		var st []byte
		if hevc {
			// aggregation packet (type 48) carrying VPS, SPS and PPS again
			st = []byte{48 << 1, 1}
			for _, ps := range [][]byte{c07HevcVps, c07HevcSps, c07HevcPps} {
				st = append(st, byte(len(ps)>>8), byte(len(ps)))
				st = append(st, ps...)
			}
		} else {
			// STAP-A carrying SPS and PPS again (in-band parameter sets)
			st = []byte{24, 0, byte(len(c05Sps))}
			st = append(st, c05Sps...)
			st = append(st, 0, byte(len(c05Pps)))
			st = append(st, c05Pps...)
		}
		pkts = append(pkts, c07Rtp(seq, ts1, false, 96, st))
		seq++
	}
	if extra != nil {
		pkts = append(pkts, pack(&seq, ts1, false, extra, max)...)
	}
	pkts = append(pkts, pack(&seq, ts1, true, idr, max)...)
	ts2 := ts1 + 3600
	pkts = append(pkts, pack(&seq, ts2, true, slice, max)...)
	for _, p := range pkts0 {
		un.Feed(p)
	}
	// arrival order: a rotation / adjacent swap chosen symbolically (inside the window)
	k := len(pkts)
	sw := vrt.Pick(vrt.Range("swap", 0, k-1)) // swap packets sw-1 and sw (0 = no swap)
	order := make([]int, k)
	for i := range order {
		order[i] = i
	}
	if sw > 0 {
		order[sw-1], order[sw] = order[sw], order[sw-1]
	}
	dup := vrt.Pick(vrt.Range("dup", -1, k-1))
	for i := 0; i < k; i++ {
		un.Feed(pkts[order[i]])
		if order[i] == dup {
			un.Feed(pkts[order[i]])
		}
	}

	// what the RTMP side got
	vrt.Assert(len(sink.msgs) >= 2 && sink.msgs[0].Header.MsgTypeId == base.RtmpTypeIdMetadata, "metadata first")
	if len(sink.msgs) < 2 {
		return
	}
	keyByte, interByte := byte(0x17), byte(0x27)
	if hevc {
		keyByte, interByte = 0x1c, 0x2c
	}
	isVsh := func(p []byte) bool {
		if hevc {
			v, s, pp, ok := c07HvccSets(p)
			return ok && c06Eq(v, c07HevcVps) && c06Eq(s, c07HevcSps) && c06Eq(pp, c07HevcPps)
		}
		wantVsh := append([]byte{0x17, 0, 0, 0, 0, 1, 0x64, 0, 0x1f, 0xff, 0xe1, 0, byte(len(c05Sps))}, c05Sps...)
		wantVsh = append(append(wantVsh, 1, 0, byte(len(c05Pps))), c05Pps...)
		return c06Eq(p, wantVsh)
	}
	vrt.Assert(isVsh(sink.msgs[1].Payload), "sequence header built from the publisher's parameter sets")
	var gotNals [][]byte
	var gotKey []bool
	var gotTs []uint32
	for _, m := range sink.msgs[2:] {
		vrt.Assert(m.Header.MsgTypeId == base.RtmpTypeIdVideo && len(m.Payload) >= 5, "video message")
		if len(m.Payload) < 5 {
			return
		}
		if m.Payload[0] == keyByte && m.Payload[1] == 0 {
			vrt.Assert(isVsh(m.Payload), "in-band parameter sets become the same sequence header")
			continue
		}
		ns, ok := c07Nals(m.Payload[5:])
		vrt.Assert(ok && m.Payload[1] == 1, "frame message is a well-formed length-prefixed NAL list")
		vrt.Assert(m.Payload[0] == keyByte || m.Payload[0] == interByte, "frame type and codec id")
		for _, n := range ns {
			gotNals = append(gotNals, n)
			gotKey = append(gotKey, m.Payload[0] == keyByte)
			gotTs = append(gotTs, m.Header.TimestampAbs)
		}
	}
	want := [][]byte{idr, slice}
	if extra != nil {
		want = [][]byte{extra, idr, slice}
	}
	vrt.Assert(len(gotNals) == len(want), "the published units, each exactly once (AUD dropped, parameter sets not forwarded as frames)")
	if len(gotNals) == len(want) {
		for i := range want {
			vrt.Assert(c06Eq(gotNals[i], want[i]), "NAL units byte for byte, in order")
		}
		last := len(want) - 1
		vrt.Assert(gotKey[last-1] && !gotKey[last], "key frame marked as such, inter frame not")
		vrt.Assert(gotTs[0] == ts1/90 && gotTs[last-1] == ts1/90 && gotTs[last] == ts2/90, "timestamps in milliseconds")
	}
	vrt.Cover("end")
}

// VerifC07KeyFlag: a key frame whose IDR slice is followed by another unit in the same packet keeps its key mark.
func VerifC07KeyFlag() {
	sink := &c07Sink{}
	rm := NewAvPacket2RtmpRemuxer().WithOnRtmpMsg(sink.on)
	rm.InitWithAvConfig(nil, nil, c05Sps, c05Pps)
	idr := c06Nal("idr", false, 0, 2)
	other := c06Nal("other", false, vrt.Param("cls"), 2) // SEI(2) / other(4) after the IDR slice
	var p []byte
	for _, n := range [][]byte{idr, other} {
		p = append(p, 0, 0, 0, byte(len(n)))
		p = append(p, n...)
	}
	rm.FeedAvPacket(base.AvPacket{PayloadType: base.AvPacketPtAvc, Timestamp: 40, Payload: p})
	vrt.Assert(len(sink.msgs) == 3, "metadata, sequence header, one frame")
	if len(sink.msgs) == 3 {
		vrt.Assert(sink.msgs[2].Payload[0] == 0x17, "an access unit containing an IDR slice is marked as a key frame")
	}
	vrt.Cover("end")
}

// VerifC07Clock: RTP timestamp -> milliseconds at every audio/video clock rate: exact up to rounding, so
// there is no cumulative drift.
func VerifC07Clock() {
	rate := vrt.Param("rate")
	ts := vrt.U32("ts")
	var got int64 = -1
	un := rtprtcp.DefaultRtpUnpackerFactory(base.AvPacketPtG711A, rate, 1024, func(pkt base.AvPacket) { got = pkt.Timestamp })
	un.Feed(c07Rtp(1, ts, true, 8, []byte{1, 2, 3}))
	vrt.Assert(got >= 0, "frame delivered")
	exact := int64(uint64(ts) * 1000 / uint64(rate))
	d := got - exact
	vrt.Assert(vrt.And(d >= -1, d <= 1), "milliseconds = timestamp*1000/rate within one millisecond (no cumulative drift)")
	vrt.Cover("end")
}
