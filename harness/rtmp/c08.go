package rtmp

import (
	"github.com/q191201771/lal/pkg/base"
	vrt "github.com/q191201771/lal/pkg/zzvrt"
)

func c08Header() base.RtmpHeader {
	h := base.RtmpHeader{
		Csid:         vrt.Range("csid", 2, 65599),
		MsgLen:       vrt.U32("msglen"),
		MsgTypeId:    vrt.U8("typ"),
		MsgStreamId:  int(vrt.U32("msid")),
		TimestampAbs: vrt.U32("ts"),
	}
	vrt.Assume(h.MsgLen < 1<<24)
	return h
}

// VerifC08Header: the chunk header kernel for every header value.
// mode 0: first chunk of a message (no previous header): type 0 chunk.
// mode 1: first chunk followed by a continuation chunk (previous header is the same header): type 3.
func VerifC08Header() {
	mode := vrt.Param("mode")
	h := c08Header()
	out := make([]byte, maxHeaderSize)
	n := calcHeader(&h, nil, out)
	vrt.Assert(n >= 1 && n <= maxHeaderSize, "header size within maxHeaderSize")
	// a zero-payload view: parse just the header with a reader whose message length is forced to 0 payload bytes
	r := &refChunkReader{chunkSize: 0}
	c := r.readChunk(out[:n])
	vrt.Assert(c == n, "reference reader consumes exactly the first-chunk header")
	s := r.stream(h.Csid)
	vrt.Assert(s.used, "chunk stream id decodes")
	vrt.Assert(s.ts == h.TimestampAbs, "absolute timestamp decodes")
	vrt.Assert(s.length == h.MsgLen, "message length decodes")
	vrt.Assert(s.typ == h.MsgTypeId, "type id decodes")
	vrt.Assert(s.msid == uint32(h.MsgStreamId), "stream id decodes")
	if mode == 1 {
		out2 := make([]byte, maxHeaderSize)
		n2 := calcHeader(&h, &h, out2)
		vrt.Assert(n2 >= 1 && n2 <= maxHeaderSize, "continuation header size")
		c2 := r.readChunk(out2[:n2])
		vrt.Assert(c2 == n2, "reference reader consumes exactly the continuation header")
		vrt.Assert(out2[0]>>6 == 3, "continuation chunk is type 3")
		vrt.Assert(s.ts == h.TimestampAbs && s.length == h.MsgLen && s.typ == h.MsgTypeId && s.msid == uint32(h.MsgStreamId), "fields unchanged by continuation")
		vrt.Assert(len(r.cs) == 1, "same chunk stream")
	}
	vrt.Cover("end")
}
