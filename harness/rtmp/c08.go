package rtmp

import (
	"github.com/q191201771/lal/pkg/base"
	vrt "github.com/q191201771/lal/pkg/zzvrt"
)

func c08Header() base.RtmpHeader {
	h := base.RtmpHeader{
		Csid:         vrt.Range("csid", 2, 65599),
		MsgLen:       vrt.U32("msglen"),
		MsgTypeId:    vrt.U8("typ"),
		MsgStreamId:  int(vrt.U32("msid")),
		TimestampAbs: vrt.U32("ts"),
	}
	vrt.Assume(h.MsgLen < 1<<24)
	return h
}

// VerifC08Header: the chunk header kernel for every header value.
// mode 0: first chunk of a message (no previous header): type 0 chunk.
// mode 1: first chunk followed by a continuation chunk (previous header is the same header): type 3.
func VerifC08Header() {
	mode := vrt.Param("mode")
	h := c08Header()
	out := make([]byte, maxHeaderSize)
	n := calcHeader(&h, nil, out)
	vrt.Assert(n >= 1 && n <= maxHeaderSize, "header size within maxHeaderSize")
	// a zero-payload view: parse just the header with a reader whose message length is forced to 0 payload bytes
	r := &refChunkReader{chunkSize: 0}
	c := r.readChunk(out[:n])
	vrt.Assert(c == n, "reference reader consumes exactly the first-chunk header")
	s := r.stream(h.Csid)
	vrt.Assert(s.used, "chunk stream id decodes")
	vrt.Assert(s.ts == h.TimestampAbs, "absolute timestamp decodes")
	vrt.Assert(s.length == h.MsgLen, "message length decodes")
	vrt.Assert(s.typ == h.MsgTypeId, "type id decodes")
	vrt.Assert(s.msid == uint32(h.MsgStreamId), "stream id decodes")
	if mode == 1 {
		out2 := make([]byte, maxHeaderSize)
		n2 := calcHeader(&h, &h, out2)
		vrt.Assert(n2 >= 1 && n2 <= maxHeaderSize, "continuation header size")
		c2 := r.readChunk(out2[:n2])
		vrt.Assert(c2 == n2, "reference reader consumes exactly the continuation header")
		vrt.Assert(out2[0]>>6 == 3, "continuation chunk is type 3")
		vrt.Assert(s.ts == h.TimestampAbs && s.length == h.MsgLen && s.typ == h.MsgTypeId && s.msid == uint32(h.MsgStreamId), "fields unchanged by continuation")
		vrt.Assert(len(r.cs) == 1, "same chunk stream")
	}
	vrt.Cover("end")
}

// sliceReader delivers a byte slice through io.Reader in fragments of at most frag bytes.
type sliceReader struct {
	b    []byte
	frag int
}

func (r *sliceReader) Read(p []byte) (int, error) {
	if len(r.b) == 0 {
		return 0, errEOFVerif
	}
	n := len(p)
	if n > len(r.b) {
		n = len(r.b)
	}
	if r.frag > 0 && n > r.frag {
		n = r.frag
	}
	copy(p, r.b[:n])
	r.b = r.b[n:]
	return n, nil
}

type verifErr struct{ s string }

func (e *verifErr) Error() string { return e.s }

var errEOFVerif = &verifErr{"verif EOF"}

// VerifC08Divide: message2Chunks for a symbolic message of len bytes at chunk size cs,
// read back by the reference reader and by lal's own ChunkComposer.
func VerifC08Divide() {
	n := vrt.Param("len")
	cs := vrt.Param("cs")
	h := c08Header()
	vrt.Assume(h.MsgLen == uint32(n))
	payload := vrt.Bytes("payload", n)
	out := message2Chunks(payload, &h, nil, cs)

	// (i) reference reader
	r := &refChunkReader{chunkSize: cs}
	ok := r.readAll(out)
	vrt.Assert(ok, "reference reader parses the whole output")
	vrt.Assert(len(r.out) == 1, "reference reader yields exactly one message")
	if len(r.out) == 1 {
		m := r.out[0]
		vrt.Assert(m.csid == h.Csid && m.typ == h.MsgTypeId && m.msid == uint32(h.MsgStreamId) && m.length == h.MsgLen, "ref: header fields")
		vrt.Assert(m.ts == h.TimestampAbs, "ref: absolute timestamp")
		vrt.Assert(len(m.payload) == n, "ref: payload length")
		for i := 0; i < n && i < len(m.payload); i++ {
			vrt.Assert(m.payload[i] == payload[i], "ref: payload bytes")
		}
	}

	// (ii) lal's own reader (an aggregate message is split into sub-messages by design: see VerifC08Compose)
	if h.MsgTypeId == base.RtmpTypeIdAggregateMessage {
		vrt.Cover("end")
		return
	}
	c := NewChunkComposer()
	c.SetPeerChunkSize(uint32(cs))
	got := 0
	rd := &sliceReader{b: out, frag: vrt.Param("frag")}
	err := c.RunLoop(rd, func(stream *Stream) error {
		got++
		vrt.Assert(stream.header.Csid == h.Csid && stream.header.MsgTypeId == h.MsgTypeId && stream.header.MsgStreamId == int(uint32(h.MsgStreamId)) && stream.header.MsgLen == h.MsgLen, "lal: header fields")
		vrt.Assert(stream.header.TimestampAbs == h.TimestampAbs, "lal: absolute timestamp")
		p := stream.msg.buff.Bytes()
		vrt.Assert(len(p) == n, "lal: payload length")
		for i := 0; i < n && i < len(p); i++ {
			vrt.Assert(p[i] == payload[i], "lal: payload bytes")
		}
		return nil
	})
	vrt.Assert(err == errEOFVerif, "lal: reader stops only at end of input")
	vrt.Assert(len(rd.b) == 0, "lal: reader consumes exactly the produced bytes")
	vrt.Assert(got == 1, "lal: exactly one message")
	vrt.Cover("end")
}
