package aac

import (
	vrt "github.com/q191201771/lal/pkg/zzvrt"
)

// VerifC19Asc: ASC <-> ADTS <-> RTMP sequence header for every 5+4+4-bit ASC and 13-bit frame length.
func VerifC19Asc() {
	aot, sfi, ch := vrt.U8("aot"), vrt.U8("sfi"), vrt.U8("ch")
	vrt.Assume(aot < 32 && sfi < 16 && ch < 16)
	in := AscContext{AudioObjectType: aot, SamplingFrequencyIndex: sfi, ChannelConfiguration: ch}
	asc := in.Pack()
	vrt.Assert(len(asc) == 2, "ASC is 2 bytes")
	vrt.Assert(asc[0] == aot<<3|sfi>>1 && asc[1] == sfi<<7|ch<<3, "ASC bit layout (ISO 14496-3 1.6.2.1)")
	out, err := NewAscContext(asc)
	vrt.Assert(err == nil && *out == in, "ASC unpack(pack) = identity")

	// RTMP sequence header
	sh, err := MakeAudioDataSeqHeaderWithAsc(asc)
	vrt.Assert(err == nil && len(sh) == 4 && sh[0] == 0xaf && sh[1] == 0 && sh[2] == asc[0] && sh[3] == asc[1], "RTMP AAC sequence header")

	// ADTS header can carry object types 1..4, every sampling index, channel configurations 0..7
	fl := int(vrt.U16("framelen"))
	vrt.Assume(fl >= 0 && fl+7 < 1<<13)
	if aot >= 1 && aot <= 4 && ch <= 7 {
		h := in.PackAdtsHeader(fl)
		vrt.Assert(len(h) == 7, "ADTS header 7 bytes")
		// reference ADTS parse (ISO 13818-7 6.2)
		vrt.Assert(h[0] == 0xff && h[1]&0xf0 == 0xf0, "syncword")
		vrt.Assert(h[1]&0x06 == 0 && h[1]&1 == 1, "layer 0, protection absent")
		vrt.Assert(h[2]>>6 == aot-1, "profile = object type - 1")
		vrt.Assert(h[2]>>2&0x0f == sfi, "sampling frequency index")
		vrt.Assert((h[2]&1)<<2|h[3]>>6 == ch, "channel configuration")
		vrt.Assert(int(h[3]&3)<<11|int(h[4])<<3|int(h[5])>>5 == fl+7, "aac_frame_length includes the header")
		vrt.Assert(h[6]&3 == 0, "one raw data block")
		c2, err := NewAdtsHeaderContext(h)
		vrt.Assert(err == nil && c2.AscCtx == in && int(c2.AdtsLength) == fl+7, "ADTS unpack recovers the ASC")
		asc2, err := MakeAscWithAdtsHeader(h)
		vrt.Assert(err == nil && len(asc2) == 2 && asc2[0] == asc[0] && asc2[1] == asc[1], "ASC survives ASC -> ADTS -> ASC")
		sh2, err := MakeAudioDataSeqHeaderWithAdtsHeader(h)
		vrt.Assert(err == nil && len(sh2) == 4 && sh2[2] == asc[0] && sh2[3] == asc[1], "sequence header from ADTS")
	}
	f, err := in.GetSamplingFrequency()
	if sfi <= 12 {
		table := []int{96000, 88200, 64000, 48000, 44100, 32000, 24000, 22050, 16000, 12000, 11025, 8000, 7350}
		vrt.Assert(err == nil && f == table[vrt.Pick(int(sfi))], "sampling frequency table (ISO 14496-3 table 1.18)")
	} else {
		vrt.Assert(err != nil, "reserved sampling index refused")
	}
	vrt.Cover("end")
}
