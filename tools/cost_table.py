#!/usr/bin/env python3
"""Prints the quick-tier cost table of DESIGN.md section 11 from evidence/*.json (written by the checks)."""
import json, glob, os
root = os.path.dirname(os.path.dirname(os.path.abspath(__file__)))
print("| id | instances | paths | obligations | by solver | queries | solver s | wall s | native replays |")
print("|---|---|---|---|---|---|---|---|---|")
for f in sorted(glob.glob(os.path.join(root, 'evidence', 'C*.json'))):
    e = json.load(open(f)); c = e['coverage']
    print("| %s | %d | %d | %d | %d | %d | %.1f | %.1f | %d |" % (e['property_id'], c['instances'], c['paths_explored'], c['obligations'],
          c['obligations_decided_by_solver'], c['solver_queries'], c['solver_time_s'], e['wall_s'], c['traces_validated_against_impl']))
