package remux

import (
	"github.com/q191201771/lal/pkg/base"
	"github.com/q191201771/lal/pkg/rtprtcp"
	vrt "github.com/q191201771/lal/pkg/zzvrt"
)

// ---- reference RTP packetiser (RFC 6184: single NAL unit, STAP-A, FU-A) ----

func c07Rtp(seq uint16, ts uint32, marker bool, pt uint8, payload []byte) rtprtcp.RtpPacket {
	b := []byte{0x80, pt, byte(seq >> 8), byte(seq), byte(ts >> 24), byte(ts >> 16), byte(ts >> 8), byte(ts), 0, 0, 0, 9}
	if marker {
		b[1] |= 0x80
	}
	b = append(b, payload...)
	p, err := rtprtcp.ParseRtpPacket(b)
	vrt.Assert(err == nil, "reference packet parses")
	return p
}

// c07PackNal packetises one NAL unit: single packet if it fits in max bytes, FU-A otherwise.
func c07PackNal(seq *uint16, ts uint32, last bool, nal []byte, max int) []rtprtcp.RtpPacket {
	var out []rtprtcp.RtpPacket
	if len(nal) <= max {
		out = append(out, c07Rtp(*seq, ts, last, 96, nal))
		*seq++
		return out
	}
	ind := nal[0]&0xe0 | 28
	typ := nal[0] & 0x1f
	rest := nal[1:]
	first := true
	for len(rest) > 0 {
		k := max - 2
		if k > len(rest) {
			k = len(rest)
		}
		h := typ
		if first {
			h |= 0x80
		}
		if k == len(rest) {
			h |= 0x40
		}
		pl := append([]byte{ind, h}, rest[:k]...)
		out = append(out, c07Rtp(*seq, ts, last && k == len(rest), 96, pl))
		*seq++
		rest = rest[k:]
		first = false
	}
	return out
}

type c07Sink struct{ msgs []base.RtmpMsg }

func (s *c07Sink) on(msg base.RtmpMsg) { s.msgs = append(s.msgs, msg.Clone()) }

// c07Nals parses a length-prefixed NAL list.
func c07Nals(b []byte) ([][]byte, bool) {
	var out [][]byte
	for len(b) > 0 {
		if len(b) < 4 {
			return out, false
		}
		n := int(b[0])<<24 | int(b[1])<<16 | int(b[2])<<8 | int(b[3])
		if n < 0 || len(b) < 4+n {
			return out, false
		}
		out = append(out, b[4:4+n])
		b = b[4+n:]
	}
	return out, true
}

// VerifC07Rtsp: an H.264 elementary stream packetised by the reference packetiser (single NAL, FU-A,
// optional in-band parameter sets by STAP-A) and delivered in a symbolic order reaches the RTMP side with
// sequence header, NAL units byte for byte and key frames marked.
func VerifC07Rtsp() {
	nl := vrt.Param("nlen")
	max := vrt.Param("max")
	sink := &c07Sink{}
	rm := NewAvPacket2RtmpRemuxer().WithOnRtmpMsg(sink.on)
	rm.InitWithAvConfig(nil, nil, c05Sps, c05Pps)
	un := rtprtcp.DefaultRtpUnpackerFactory(base.AvPacketPtAvc, 90000, 1024, func(pkt base.AvPacket) { rm.FeedAvPacket(pkt) })

	seq := vrt.U16("seq0")
	ts1 := uint32(vrt.Param("ts1"))
	idr := c06Nal("idr", 0, nl)
	slice := c06Nal("slice", 1, nl)
	var pkts []rtprtcp.RtpPacket
	// anchor: a one-byte-header AUD as its own packet establishes the expected sequence number
	pkts0 := c07PackNal(&seq, ts1, false, []byte{0x09, 0xf0}, max+10)
	if vrt.Param("inband") == 1 {
		// STAP-A carrying SPS and PPS again (in-band parameter sets)
		st := []byte{24, 0, byte(len(c05Sps))}
		st = append(st, c05Sps...)
		st = append(st, 0, byte(len(c05Pps)))
		st = append(st, c05Pps...)
		pkts = append(pkts, c07Rtp(seq, ts1, false, 96, st))
		seq++
	}
	pkts = append(pkts, c07PackNal(&seq, ts1, true, idr, max)...)
	ts2 := ts1 + 3600
	pkts = append(pkts, c07PackNal(&seq, ts2, true, slice, max)...)
	for _, p := range pkts0 {
		un.Feed(p)
	}
	// arrival order: a rotation / adjacent swap chosen symbolically (inside the window)
	k := len(pkts)
	sw := vrt.Pick(vrt.Range("swap", 0, k-1)) // swap packets sw-1 and sw (0 = no swap)
	order := make([]int, k)
	for i := range order {
		order[i] = i
	}
	if sw > 0 {
		order[sw-1], order[sw] = order[sw], order[sw-1]
	}
	dup := vrt.Pick(vrt.Range("dup", -1, k-1))
	for i := 0; i < k; i++ {
		un.Feed(pkts[order[i]])
		if order[i] == dup {
			un.Feed(pkts[order[i]])
		}
	}

	// what the RTMP side got
	vrt.Assert(len(sink.msgs) >= 2 && sink.msgs[0].Header.MsgTypeId == base.RtmpTypeIdMetadata, "metadata first")
	if len(sink.msgs) < 2 {
		return
	}
	wantVsh := append([]byte{0x17, 0, 0, 0, 0, 1, 0x64, 0, 0x1f, 0xff, 0xe1, 0, byte(len(c05Sps))}, c05Sps...)
	wantVsh = append(append(wantVsh, 1, 0, byte(len(c05Pps))), c05Pps...)
	vrt.Assert(c06Eq(sink.msgs[1].Payload, wantVsh), "sequence header built from the publisher's parameter sets")
	var gotNals [][]byte
	var gotKey []bool
	var gotTs []uint32
	for _, m := range sink.msgs[2:] {
		vrt.Assert(m.Header.MsgTypeId == base.RtmpTypeIdVideo && len(m.Payload) >= 5, "video message")
		if len(m.Payload) < 5 {
			return
		}
		if m.Payload[0] == 0x17 && m.Payload[1] == 0 {
			vrt.Assert(c06Eq(m.Payload, wantVsh), "in-band parameter sets become the same sequence header")
			continue
		}
		ns, ok := c07Nals(m.Payload[5:])
		vrt.Assert(ok && m.Payload[1] == 1, "frame message is a well-formed length-prefixed NAL list")
		for _, n := range ns {
			gotNals = append(gotNals, n)
			gotKey = append(gotKey, m.Payload[0] == 0x17)
			gotTs = append(gotTs, m.Header.TimestampAbs)
		}
	}
	vrt.Assert(len(gotNals) == 2, "the two slice units, each exactly once (AUD dropped, parameter sets not forwarded as frames)")
	if len(gotNals) == 2 {
		vrt.Assert(c06Eq(gotNals[0], idr) && c06Eq(gotNals[1], slice), "NAL units byte for byte, in order")
		vrt.Assert(gotKey[0] && !gotKey[1], "key frame marked as such, inter frame not")
		vrt.Assert(gotTs[0] == ts1/90 && gotTs[1] == ts2/90, "timestamps in milliseconds")
	}
	vrt.Cover("end")
}

// VerifC07KeyFlag: a key frame whose IDR slice is followed by another unit in the same packet keeps its key mark.
func VerifC07KeyFlag() {
	sink := &c07Sink{}
	rm := NewAvPacket2RtmpRemuxer().WithOnRtmpMsg(sink.on)
	rm.InitWithAvConfig(nil, nil, c05Sps, c05Pps)
	idr := c06Nal("idr", 0, 2)
	other := c06Nal("other", vrt.Param("cls"), 2) // SEI(2) / other(4) after the IDR slice
	var p []byte
	for _, n := range [][]byte{idr, other} {
		p = append(p, 0, 0, 0, byte(len(n)))
		p = append(p, n...)
	}
	rm.FeedAvPacket(base.AvPacket{PayloadType: base.AvPacketPtAvc, Timestamp: 40, Payload: p})
	vrt.Assert(len(sink.msgs) == 3, "metadata, sequence header, one frame")
	if len(sink.msgs) == 3 {
		vrt.Assert(sink.msgs[2].Payload[0] == 0x17, "an access unit containing an IDR slice is marked as a key frame")
	}
	vrt.Cover("end")
}

// VerifC07Clock: RTP timestamp -> milliseconds at every audio/video clock rate: exact up to rounding, so
// there is no cumulative drift.
func VerifC07Clock() {
	rate := vrt.Param("rate")
	ts := vrt.U32("ts")
	var got int64 = -1
	un := rtprtcp.DefaultRtpUnpackerFactory(base.AvPacketPtG711A, rate, 1024, func(pkt base.AvPacket) { got = pkt.Timestamp })
	un.Feed(c07Rtp(1, ts, true, 8, []byte{1, 2, 3}))
	vrt.Assert(got >= 0, "frame delivered")
	exact := int64(uint64(ts) * 1000 / uint64(rate))
	d := got - exact
	vrt.Assert(vrt.And(d >= -1, d <= 1), "milliseconds = timestamp*1000/rate within one millisecond (no cumulative drift)")
	vrt.Cover("end")
}
