package remux

import (
	"github.com/q191201771/lal/pkg/base"
	"github.com/q191201771/lal/pkg/sdp"
	vrt "github.com/q191201771/lal/pkg/zzvrt"
)

// VerifC13SdpConfig: the codec configuration an RTSP peer announces in its SDP (ANNOUNCE body of a
// publisher, DESCRIBE answer of an upstream server) is hex / base64 text of the peer's choosing: after
// decoding, config / sprop-vps / sprop-sps / sprop-pps are arbitrary byte strings, possibly empty. They go
// into the RTMP remuxer exactly as Group.OnSdp passes them. Nothing panics, whatever they contain.
func VerifC13SdpConfig() {
	opt := func(tag string, n int) []byte {
		if n < 0 {
			return nil
		}
		return vrt.Bytes(tag, n)
	}
	var ctx sdp.LogicContext
	ctx.Asc = opt("asc", vrt.Param("la"))
	ctx.Vps = opt("vps", vrt.Param("lv"))
	ctx.Sps = opt("sps", vrt.Param("ls"))
	ctx.Pps = opt("pps", vrt.Param("lp"))
	n := 0
	rm := NewAvPacket2RtmpRemuxer().WithOnRtmpMsg(func(msg base.RtmpMsg) { n++ })
	rm.OnSdp(ctx)
	// a first frame of each track follows
	rm.OnAvPacket(base.AvPacket{PayloadType: base.AvPacketPtAvc, Timestamp: 40, Payload: []byte{0, 0, 0, 2, 0x65, 0x88}})
	rm.OnAvPacket(base.AvPacket{PayloadType: base.AvPacketPtAac, Timestamp: 40, Payload: []byte{0x21, 0x10}})
	vrt.Cover("end")
}
