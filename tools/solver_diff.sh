#!/bin/bash
# cross-solver comparison: re-decides the given checks (quick tier) with z3 4.8.12, z3 5.1 (z3-new) and cvc5 1.0
# and prints verdict / paths / obligations-by-solver per back end; any difference in verdict or path count is
# a translator or solver fault to investigate. Does not touch evidence/ (work is done in a scratch copy).
cd "$(dirname "$0")/.."
tmp=$(mktemp -d /tmp/solverdiff.XXXX); cp -r check checks harness engine known_findings.json MANIFEST.json bin "$tmp"/ 2>/dev/null; mkdir -p "$tmp/evidence"
for c in "$@"; do
  for s in z3 z3-new cvc5; do
    line=$(cd "$tmp" && GOSYM_SOLVER=$s timeout 3000 ./check $c quick 2>&1 | grep -E "^$c quick" | head -1)
    echo "$c $s | $line"
  done
done
rm -rf "$tmp"
