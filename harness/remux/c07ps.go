package remux

import (
	"github.com/q191201771/lal/pkg/base"
	"github.com/q191201771/lal/pkg/gb28181"
	vrt "github.com/q191201771/lal/pkg/zzvrt"
)

// ---- reference MPEG-2 program stream packer (ISO/IEC 13818-1 2.5.3.3-2.5.4.1, 2.4.3.6 for PES) ----

func c07PsPackHeader(stuffing int) []byte {
	b := []byte{0, 0, 1, 0xba, 0x44, 0x00, 0x04, 0x00, 0x04, 0x01, 0x00, 0x00, 0x03, byte(0xf8 | stuffing)}
	for i := 0; i < stuffing; i++ {
		b = append(b, 0xff)
	}
	return b
}

func c07PsSystemHeader() []byte {
	return []byte{0, 0, 1, 0xbb, 0, 12, 0x80, 0x04, 0xe1, 0x7f, 0xe0, 0xe0, 0x80, 0xc0, 0xc0, 0x08, 0xbd, 0xe0}
}

// c07Psm declares one video stream (0xe0) and optionally one audio stream (0xc0).
func c07Psm(videoType, audioType uint8) []byte {
	es := []byte{videoType, 0xe0, 0, 0}
	if audioType != 0 {
		es = append(es, audioType, 0xc0, 0, 0)
	}
	l := 2 + 2 + 2 + len(es) + 4
	b := []byte{0, 0, 1, 0xbc, byte(l >> 8), byte(l), 0xe0, 0xff, 0, 0, byte(len(es) >> 8), byte(len(es))}
	b = append(b, es...)
	return append(b, 0x45, 0xbd, 0xdc, 0xf4) // CRC_32 (not verified by receivers of GB28181 streams)
}

func c07PtsField(prefix byte, v uint64) []byte {
	return []byte{prefix<<4 | byte(v>>30&7)<<1 | 1, byte(v >> 22), byte(v>>15&0x7f)<<1 | 1, byte(v >> 7), byte(v&0x7f)<<1 | 1}
}

func c07Pes(sid byte, pts, dts uint64, withDts bool, es []byte) []byte {
	var hd []byte
	flags := byte(0x80)
	if withDts {
		flags = 0xc0
		hd = append(c07PtsField(3, pts), c07PtsField(1, dts)...)
	} else {
		hd = c07PtsField(2, pts)
	}
	l := 3 + len(hd) + len(es)
	b := []byte{0, 0, 1, sid, byte(l >> 8), byte(l), 0x80, flags, byte(len(hd))}
	b = append(b, hd...)
	return append(b, es...)
}

func c07Annexb(sc int, nals ...[]byte) []byte {
	var b []byte
	for _, n := range nals {
		if sc == 4 {
			b = append(b, 0)
		}
		b = append(b, 0, 0, 1)
		b = append(b, n...)
	}
	return b
}

// VerifC07Ps: an H.264 + G.711A / AAC(ADTS) stream muxed by the reference PS packer, carried in RTP
// packets (the second frame split at a symbolic byte position), through lal's PS demuxer and
// AvPacket -> RTMP remuxer: sequence header from the in-band parameter sets, then the same NAL units and
// audio frames, key frame marked, timestamps = PTS/90.
func VerifC07Ps() {
	nl := vrt.Param("nlen")
	sc := vrt.Param("sc") // start code length 3 or 4
	withDts := vrt.Param("dts") == 1
	audio := vrt.Param("audio") // 0 none, 1 G.711A, 2 AAC with ADTS
	al := vrt.Param("alen")
	sink := &c07Sink{}
	rm := NewAvPacket2RtmpRemuxer().WithOnRtmpMsg(sink.on)
	rm.WithOption(func(option *base.AvPacketStreamOption) {
		option.VideoFormat = base.AvPacketStreamVideoFormatAnnexb
		option.AudioFormat = base.AvPacketStreamAudioFormatAdtsAac
	})
	un := gb28181.NewPsUnpacker().WithOnAvPacket(func(pkt *base.AvPacket) { rm.OnAvPacket(*pkt) })

	idr := c06Nal("idr", false, 0, nl)
	s1 := c06Nal("s1", false, 1, nl)
	s2 := c06Nal("s2", false, 1, nl)
	if vrt.Param("nz") == 1 {
		// bound: no 0x00 / 0x01 bytes inside the units: the start-code scanner forks on both values for every
		// byte (2^n paths); scanning over arbitrary bytes is C19's subject; nz=0 instances leave them arbitrary
		for _, n := range [][]byte{idr, s1, s2} {
			for i := 1; i < len(n); i++ {
				vrt.Assume(n[i] > 1)
			}
		}
	}
	pts0 := uint64(vrt.Param("pts"))
	mask := uint64(1)<<33 - 1
	pts := []uint64{pts0 & mask, (pts0 + 3600) & mask, (pts0 + 7200) & mask}
	var aTyp uint8
	var afr [][]byte
	mkAudio := func(i int) []byte {
		if audio == 0 {
			return nil
		}
		f := vrt.Bytes("au", al)
		afr = append(afr, f)
		es := f
		if audio == 2 {
			fl := 7 + al
			// ADTS fixed + variable header: AAC-LC, 44.1 kHz (index 4), 2 channels
			es = append([]byte{0xff, 0xf1, 0x50, 0x80 | byte(fl>>11&3), byte(fl >> 3), byte(fl&7)<<5 | 0x1f, 0xfc}, f...)
		}
		return c07Pes(0xc0, pts[i], 0, false, es)
	}
	switch audio {
	case 1:
		aTyp = 0x90
	case 2:
		aTyp = 0x0f
	}
	var frames [][]byte
	f0 := c07PsPackHeader(vrt.Param("stuff"))
	f0 = append(f0, c07PsSystemHeader()...)
	f0 = append(f0, c07Psm(0x1b, aTyp)...)
	f0 = append(f0, c07Pes(0xe0, pts[0], pts[0], withDts, c07Annexb(sc, c05Sps, c05Pps, idr))...)
	f0 = append(f0, mkAudio(0)...)
	frames = append(frames, f0)
	for i, s := range [][]byte{s1, s2} {
		f := c07PsPackHeader(0)
		f = append(f, c07Pes(0xe0, pts[i+1], pts[i+1], withDts, c07Annexb(sc, s))...)
		f = append(f, mkAudio(i+1)...)
		frames = append(frames, f)
	}

	seq := uint16(vrt.Param("seq0")) // sequence algebra for all 65536 initial values is decided in C12 (H12c/H12e)
	feed := func(ts uint32, marker bool, body []byte) {
		p := c07Rtp(seq, ts, marker, 96, body)
		seq++
		vrt.Assert(un.FeedRtpPacket(p.Raw) == nil, "RTP packet accepted")
	}
	for i, f := range frames {
		ts := uint32(pts[i])
		if i == 1 {
			k := vrt.Pick(vrt.Range("split", 1, len(f)-1))
			feed(ts, false, f[:k])
			feed(ts, true, f[k:])
		} else {
			feed(ts, true, f)
		}
	}

	// RTMP side
	vrt.Assert(len(sink.msgs) >= 2 && sink.msgs[0].Header.MsgTypeId == base.RtmpTypeIdMetadata, "metadata first")
	if len(sink.msgs) < 2 {
		return
	}
	wantVsh := append([]byte{0x17, 0, 0, 0, 0, 1, 0x64, 0, 0x1f, 0xff, 0xe1, 0, byte(len(c05Sps))}, c05Sps...)
	wantVsh = append(append(wantVsh, 1, 0, byte(len(c05Pps))), c05Pps...)
	var vmsgs, amsgs []base.RtmpMsg
	for _, m := range sink.msgs[1:] {
		if m.Header.MsgTypeId == base.RtmpTypeIdVideo {
			vmsgs = append(vmsgs, m)
		} else {
			vrt.Assert(m.Header.MsgTypeId == base.RtmpTypeIdAudio, "audio or video message")
			amsgs = append(amsgs, m)
		}
	}
	vrt.Assert(len(vmsgs) == 3, "video: sequence header, key frame, inter frame (the third frame is still being assembled)")
	if len(vmsgs) == 3 {
		vrt.Assert(c06Eq(vmsgs[0].Payload, wantVsh), "sequence header built from the in-band parameter sets")
		want := [][]byte{idr, s1}
		for i := 0; i < 2; i++ {
			m := vmsgs[i+1]
			ns, ok := c07Nals(m.Payload[5:])
			vrt.Assert(ok && len(ns) == 1 && m.Payload[1] == 1 && c06Eq(ns[0], want[i]), "video: NAL unit byte for byte, one message per unit")
			vrt.Assert(m.Header.TimestampAbs == uint32(pts[i]/90), "video: timestamp = PTS / 90")
		}
		vrt.Assert(vmsgs[1].Payload[0] == 0x17 && vmsgs[2].Payload[0] == 0x27, "key frame marked as such, inter frame not")
	}
	if audio != 0 {
		off := 0
		if audio == 2 {
			vrt.Assert(len(amsgs) == 3, "audio: AAC sequence header + two frames")
			if len(amsgs) == 3 {
				vrt.Assert(c06Eq(amsgs[0].Payload, []byte{0xaf, 0x00, 0x12, 0x10}), "AAC sequence header from the ADTS header (AAC-LC 44.1 kHz stereo)")
			}
			off = 1
		} else {
			vrt.Assert(len(amsgs) == 2, "audio: two frames (the third is still being assembled)")
		}
		if len(amsgs) == 2+off {
			for i := 0; i < 2; i++ {
				m := amsgs[i+off]
				if audio == 1 {
					vrt.Assert(len(m.Payload) == 1+al && m.Payload[0] == 0x72 && c06Eq(m.Payload[1:], afr[i]), "G.711A frame byte for byte")
				} else {
					vrt.Assert(len(m.Payload) == 2+al && m.Payload[0] == 0xaf && m.Payload[1] == 1 && c06Eq(m.Payload[2:], afr[i]), "AAC frame byte for byte, ADTS header removed")
				}
				vrt.Assert(m.Header.TimestampAbs == uint32(pts[i]/90), "audio: timestamp = PTS / 90")
			}
		}
	}
	vrt.Cover("end")
}
