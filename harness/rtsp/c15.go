package rtsp

import (
	vkit "github.com/q191201771/lal/pkg/zzvkit"
	vrt "github.com/q191201771/lal/pkg/zzvrt"
)

// VerifC15Interleaved: k interleaved RTP writes (plain or WebSocket) over a connection that rejects an
// arbitrary subset of the underlying writes: what was accepted is a sequence of whole '$' frames
// (each inside one complete WebSocket frame when WebSocket is used).
func VerifC15Interleaved() {
	k, n := vrt.Param("k"), vrt.Param("len")
	fc := &vkit.Conn{}
	fc.Reject = func(call int) bool { return vrt.Bool("reject") }
	s := &ServerCommandSession{conn: fc, isWebSocket: vrt.Param("ws") == 1}
	for i := 0; i < k; i++ {
		_ = s.WriteInterleavedPacket(vrt.Bytes("pkt", n), 0)
	}
	all := fc.All()
	for len(all) > 0 {
		if s.isWebSocket {
			// RFC 6455 header (unmasked binary, 7-bit or 16-bit length form is enough for these sizes)
			vrt.Assert(len(all) >= 2 && all[0] == 0x82 && all[1]&0x80 == 0, "accepted bytes start with a complete binary frame header")
			if len(all) < 2 {
				return
			}
			l := int(all[1] & 0x7f)
			hs := 2
			if l == 126 {
				vrt.Assert(len(all) >= 4, "16-bit length present")
				if len(all) < 4 {
					return
				}
				l = int(all[2])<<8 | int(all[3])
				hs = 4
			}
			vrt.Assert(l == 4+n && len(all) >= hs+l, "the frame's declared payload (one interleaved packet) was accepted too")
			if l != 4+n || len(all) < hs+l {
				return
			}
			all = all[hs:]
		}
		vrt.Assert(len(all) >= 4+n && all[0] == '$' && all[1] == 0 && int(all[2])<<8|int(all[3]) == n, "whole interleaved frame")
		if len(all) < 4+n {
			return
		}
		all = all[4+n:]
	}
	vrt.Cover("end")
}
