package hls

import (
	"path/filepath"
	"strings"

	"github.com/q191201771/lal/pkg/base"
	vrt "github.com/q191201771/lal/pkg/zzvrt"
)

const c14Root = "/data/lal/hls"

func c14Inside(p string) bool {
	c := filepath.Clean(p)
	return strings.HasPrefix(c, c14Root+"/")
}

// VerifC14HlsRequestPath: whatever last path item the HTTP layer delivers, the file the HLS
// handler would read lies inside the configured output root (or the request is refused).
func VerifC14HlsRequestPath() {
	n := vrt.Param("n")
	item := vrt.Str("item", n)
	for i := 0; i < n; i++ {
		vrt.Assume(item[i] != '/' && item[i] != 0) // parseUrlPath splits on '/', so the last item holds none
		if vrt.Param("ts") == 1 || vrt.Param("ascii") == 1 {
			// the .ts name parser walks runes backwards through utf8 tables (256-way symbolic lookups):
			// this family is decided for ASCII names only (stated bound)
			vrt.Assume(item[i] < 0x80)
		}
	}
	suffix := ".m3u8"
	if vrt.Param("ts") == 1 {
		suffix = ".ts"
	}
	var u base.UrlContext
	u.LastItemOfPath = item + suffix
	u.Path = "/hls/" + u.LastItemOfPath
	if vrt.Param("dir") == 1 {
		// /hls/<item>/playlist.m3u8 form: the stream name is the directory item
		u.LastItemOfPath = "playlist.m3u8"
		u.Path = "/hls/" + item + "/playlist.m3u8"
	}
	var ps DefaultPathStrategy
	ri := ps.GetRequestInfo(u, c14Root)
	refused := ri.StreamName == "" || ri.FileNameWithPath == ""
	vrt.Assert(refused || c14Inside(ri.FileNameWithPath), "file served lies inside the output root")
	vrt.Cover("end")
}

// VerifC14HlsWritePath: no stream name makes the muxer write outside the output root.
func VerifC14HlsWritePath() {
	n := vrt.Param("n")
	name := vrt.Str("name", n)
	for i := 0; i < n; i++ {
		vrt.Assume(name[i] != 0)
		if vrt.Param("ascii") == 1 {
			vrt.Assume(name[i] < 0x80)
		}
	}
	var ps DefaultPathStrategy
	out := ps.GetMuxerOutPath(c14Root, name)
	vrt.Assert(c14Inside(out+"/x"), "muxer output directory lies inside the output root")
	vrt.Cover("end")
}
