package logic

import (
	"github.com/q191201771/lal/pkg/base"
	vrt "github.com/q191201771/lal/pkg/zzvrt"
)

var c14Protocols = []string{
	base.SessionProtocolRtmpStr, base.SessionProtocolRtspStr, base.SessionProtocolFlvStr, base.SessionProtocolTsStr,
	base.SessionProtocolHlsStr, base.SessionProtocolPsStr, base.SessionProtocolCustomizeStr, "OTHER",
}

// VerifC14Flags: the flag table. With an empty URL parameter the secret check always refuses, so the
// call is refused exactly when the flag of that protocol and direction is on.
func VerifC14Flags() {
	cfg := SimpleAuthConfig{
		Key:              "k",
		PubRtmpEnable:    vrt.Bool("pubrtmp"),
		SubRtmpEnable:    vrt.Bool("subrtmp"),
		SubHttpflvEnable: vrt.Bool("subflv"),
		SubHttptsEnable:  vrt.Bool("subts"),
		PubRtspEnable:    vrt.Bool("pubrtsp"),
		SubRtspEnable:    vrt.Bool("subrtsp"),
		HlsM3u8Enable:    vrt.Bool("hls"),
	}
	s := NewSimpleAuthCtx(cfg)
	proto := c14Protocols[vrt.Param("proto")]
	var pi base.PubStartInfo
	pi.Protocol, pi.StreamName, pi.UrlParam = proto, "s1", ""
	perr := s.OnPubStart(pi)
	wantPub := (cfg.PubRtmpEnable && proto == base.SessionProtocolRtmpStr) || (cfg.PubRtspEnable && proto == base.SessionProtocolRtspStr)
	vrt.Assert((perr != nil) == wantPub, "publish is checked iff the flag of its protocol is on")
	var si base.SubStartInfo
	si.Protocol, si.StreamName, si.UrlParam = proto, "s1", ""
	serr := s.OnSubStart(si)
	wantSub := (cfg.SubRtmpEnable && proto == base.SessionProtocolRtmpStr) || (cfg.SubHttpflvEnable && proto == base.SessionProtocolFlvStr) ||
		(cfg.SubHttptsEnable && proto == base.SessionProtocolTsStr) || (cfg.SubRtspEnable && proto == base.SessionProtocolRtspStr)
	vrt.Assert((serr != nil) == wantSub, "play is checked iff the flag of its protocol is on")
	herr := s.OnHls("s1", "")
	vrt.Assert((herr != nil) == cfg.HlsM3u8Enable, "playlist request is checked iff the hls flag is on")
	vrt.Cover("end")
}

func c14Lower(s string) string {
	b := []byte(s)
	for i := range b {
		up := vrt.And(b[i] >= 'A', b[i] <= 'Z')
		b[i] = byte(vrt.Ite(up, int(b[i])+0x20, int(b[i])))
	}
	return string(b)
}

// VerifC14Secret: the secret comparison for every value of the secret in each query form.
func VerifC14Secret() {
	override := ""
	if vrt.Param("override") == 1 {
		override = "0123456789abcdef0123456789abcdef"
	}
	s := NewSimpleAuthCtx(SimpleAuthConfig{Key: "q191201771", DangerousLalSecret: override})
	right := SimpleAuthCalcSecret("q191201771", "s1")
	other := SimpleAuthCalcSecret("q191201771", "s2")
	vrt.Assert(len(right) == 32 && right != other, "secrets are 32 hex characters and differ per stream")
	n := vrt.Param("vlen")
	v := vrt.Str("v", n)
	for i := 0; i < n; i++ {
		c := v[i]
		vrt.Assume(vrt.Or(vrt.And(c >= '0', c <= '9'), vrt.Or(vrt.And(c >= 'a', c <= 'z'), vrt.And(c >= 'A', c <= 'Z'))))
	}
	var q string
	first := v
	switch vrt.Param("form") {
	case 0:
		q = "lal_secret=" + v
	case 1:
		q = "x=1&lal_secret=" + v
	case 2: // duplicated: the first occurrence decides
		q = "lal_secret=" + v + "&lal_secret=" + right
	case 3: // no secret at all
		q = "x=" + v
		first = ""
	case 4: // malformed escape elsewhere in the query
		q = "lal_secret=" + v + "&y=%zz"
		first = "\x00malformed"
	case 5: // secret of another stream
		q = "lal_secret=" + other
		first = other
	case 6: // right secret, upper case
		up := []byte(right)
		for i := range up {
			if up[i] >= 'a' && up[i] <= 'f' {
				up[i] -= 0x20
			}
		}
		q = "lal_secret=" + string(up)
		first = string(up)
	}
	err := s.check("s1", q)
	lv := c14Lower(first)
	want := first != "" && first != "\x00malformed" && (lv == right || (override != "" && lv == override))
	vrt.Assert((err == nil) == want, "admitted iff the first lal_secret equals the derived (or override) secret, case-insensitively")
	vrt.Cover("end")
}
