package rtmp

import (
	"bytes"

	"github.com/q191201771/lal/pkg/base"
	vkit "github.com/q191201771/lal/pkg/zzvkit"
	vrt "github.com/q191201771/lal/pkg/zzvrt"
)

type c04AvObserver struct{ n int }

func (o *c04AvObserver) OnReadRtmpAvMsg(msg base.RtmpMsg) { o.n++ }

// c04Observer plays the part of logic.ServerManager: an accepted publisher gets its media observer.
type c04Observer struct {
	refuse bool
	av     *c04AvObserver
}

func (o *c04Observer) OnRtmpConnect(session *ServerSession, opa ObjectPairArray) {}
func (o *c04Observer) OnNewRtmpPubSession(session *ServerSession) error {
	if o.refuse {
		return base.ErrDupInStream
	}
	session.SetPubSessionObserver(o.av)
	return nil
}
func (o *c04Observer) OnNewRtmpSubSession(session *ServerSession) error {
	if o.refuse {
		return base.ErrDupInStream
	}
	return nil
}

func c04Session(conn *vkit.Conn, obs *c04Observer) *ServerSession {
	return &ServerSession{
		conn:                    conn,
		observer:                obs,
		chunkComposer:           NewChunkComposer(),
		packer:                  NewMessagePacker(),
		IsFresh:                 true,
		ShouldWaitVideoKeyFrame: true,
	}
}

func c04Stream(typ uint8, msid int, ts uint32, payload []byte) *Stream {
	st := NewStream()
	st.header = base.RtmpHeader{Csid: 3, MsgLen: uint32(len(payload)), MsgTypeId: typ, MsgStreamId: msid, TimestampAbs: ts}
	st.msg.Grow(uint32(len(payload)))
	copy(st.msg.buff.ReserveBytes(len(payload)), payload)
	st.msg.Flush(uint32(len(payload)))
	return st
}

func c04Cmd(name string, tid float64, rest func(b *bytes.Buffer)) []byte {
	b := &bytes.Buffer{}
	_ = Amf0.WriteString(b, name)
	_ = Amf0.WriteNumber(b, tid)
	if rest != nil {
		rest(b)
	}
	return b.Bytes()
}

// c04Role drives the session into a role with well-formed commands, as a real client would.
func c04Role(s *ServerSession, role int) {
	if role == 0 {
		return
	}
	connect := c04Cmd("connect", 1, func(b *bytes.Buffer) {
		_ = Amf0.WriteObject(b, ObjectPairArray{{Key: "app", Value: "live"}, {Key: "tcUrl", Value: "rtmp://h/live"}})
	})
	vrt.Assert(s.doMsg(c04Stream(20, 0, 0, connect)) == nil, "well-formed connect accepted")
	name := "publish"
	if role == 2 {
		name = "play"
	}
	cmd := c04Cmd(name, 2, func(b *bytes.Buffer) {
		_ = Amf0.WriteNull(b)
		_ = Amf0.WriteString(b, "s1?k=v")
		if role == 1 {
			_ = Amf0.WriteString(b, "live")
		}
	})
	vrt.Assert(s.doMsg(c04Stream(20, 1, 0, cmd)) == nil, "well-formed publish/play accepted")
}

// VerifC04DoMsg: one arbitrary message (type typ, prefix class pre, tail arbitrary bytes) delivered
// to a session in role 0 (fresh), 1 (publisher) or 2 (subscriber). No panic; handler returns.
func VerifC04DoMsg() {
	conn := &vkit.Conn{}
	obs := &c04Observer{av: &c04AvObserver{}}
	s := c04Session(conn, obs)
	c04Role(s, vrt.Param("role"))
	if vrt.Param("wfail") == 1 {
		conn.Reject = func(int) bool { return vrt.Bool("reject") }
	}
	obs.refuse = vrt.Bool("refuse")

	var payload []byte
	switch vrt.Param("pre") {
	case 0: // wholly arbitrary
	case 1:
		payload = c04Cmd("connect", 1, nil)
	case 2:
		payload = c04Cmd("createStream", 2, nil)
	case 3:
		payload = c04Cmd("publish", 3, nil)
	case 4:
		payload = c04Cmd("play", 4, nil)
	case 5:
		payload = c04Cmd("deleteStream", 5, nil)
	case 6: // command name given, transaction id arbitrary
		b := &bytes.Buffer{}
		_ = Amf0.WriteString(b, "publish")
		payload = b.Bytes()
	case 7:
		payload = c04Cmd("connect", 1, func(b *bytes.Buffer) { b.Write([]byte{3, 0, 3, 'a', 'p', 'p'}) })
	case 8:
		payload = c04Cmd("publish", 3, func(b *bytes.Buffer) { _ = Amf0.WriteNull(b) })
	case 9:
		payload = c04Cmd("play", 3, func(b *bytes.Buffer) { _ = Amf0.WriteNull(b) })
	}
	payload = append(payload, vrt.Bytes("tail", vrt.Param("tail"))...)
	typ := uint8(vrt.Param("typ"))
	if vrt.Param("typ") < 0 {
		typ = vrt.U8("typ")
	}
	st := c04Stream(typ, int(vrt.U32("msid")), vrt.U32("ts"), payload)
	_ = s.doMsg(st)
	vrt.Cover("end")
}

// VerifC04Stream: an arbitrary byte stream of m bytes in arbitrary fragmentation through
// ChunkComposer.RunLoop. The message callback is abstracted to "returns nil or an error" because
// VerifC04DoMsg decides doMsg for every message RunLoop can hand over (compositional split).
// No panic; the loop ends with an error at end of input.
func VerifC04Stream() {
	m := vrt.Param("m")
	conn := &vkit.Conn{}
	conn.In = vrt.Bytes("in", m)
	conn.Frag = vrt.Param("frag")
	// instance split (parallelism only; the union of the 12 classes is every first byte)
	vrt.Assume(conn.In[0]>>6 == uint8(vrt.Param("f0")))
	switch vrt.Param("c0") {
	case 0:
		vrt.Assume(conn.In[0]&0x3f == 0)
	case 1:
		vrt.Assume(conn.In[0]&0x3f == 1)
	default:
		vrt.Assume(conn.In[0]&0x3f >= 2)
	}
	c := NewChunkComposer()
	if vrt.Param("reuse") == 1 {
		c.SetReuseBufferFlag(true)
	}
	n := 0
	err := c.RunLoop(conn, func(stream *Stream) error {
		n++
		vrt.Assert(stream.msg.Len() == stream.header.MsgLen, "callback sees a complete message")
		if vrt.Bool("cberr") {
			return errEOFVerif
		}
		return nil
	})
	vrt.Assert(err != nil, "RunLoop returns an error at end of input")
	vrt.Cover("end")
}
