// Package zzvrt is the nondeterminism runtime of the verification harnesses.
//
// Under the symbolic executor (gosym) every function here is intercepted: U8..Bytes return
// fresh solver variables, Assume adds a path-condition conjunct, Assert is an obligation.
// Compiled natively (replay of a solver model with `go test -overlay`) the same functions
// read the recorded values from the replay file named by $VERIF_REPLAY.
package zzvrt

import (
	"encoding/json"
	"fmt"
	"net"
	"os"
	"time"
)

type replayFile struct {
	Harness string                     `json:"harness"`
	Params  map[string]int             `json:"params"`
	Values  map[string]json.RawMessage `json:"values"`
}

var (
	rf     replayFile
	counts = map[string]int{}
	loaded bool
)

// LoadReplay reads a replay file; it is called by the generated replay test.
func LoadReplay(path string) {
	b, err := os.ReadFile(path)
	if err != nil {
		panic("zzvrt: cannot read replay file: " + err.Error())
	}
	rf = replayFile{}
	if err := json.Unmarshal(b, &rf); err != nil {
		panic("zzvrt: bad replay file: " + err.Error())
	}
	counts = map[string]int{}
	loaded = true
}

func key(tag string) string {
	k := counts[tag]
	counts[tag] = k + 1
	return fmt.Sprintf("%s#%d", tag, k)
}

func scalar(tag string) uint64 {
	raw, ok := rf.Values[key(tag)]
	if !ok {
		return 0
	}
	var v uint64
	if err := json.Unmarshal(raw, &v); err != nil {
		return 0
	}
	return v
}

func U8(tag string) uint8   { return uint8(scalar(tag)) }
func U16(tag string) uint16 { return uint16(scalar(tag)) }
func U32(tag string) uint32 { return uint32(scalar(tag)) }
func U64(tag string) uint64 { return scalar(tag) }
func Int(tag string) int    { return int(scalar(tag)) }
func I64(tag string) int64  { return int64(scalar(tag)) }
func I32(tag string) int32  { return int32(scalar(tag)) }
func Bool(tag string) bool  { return scalar(tag) != 0 }

// Range returns an arbitrary int in [lo, hi].
func Range(tag string, lo, hi int) int { return int(scalar(tag)) }

// Bytes returns n arbitrary bytes (n must be concrete).
func Bytes(tag string, n int) []byte {
	out := make([]byte, n)
	raw, ok := rf.Values[key(tag)]
	if !ok {
		return out
	}
	var vs []uint64
	if err := json.Unmarshal(raw, &vs); err != nil {
		return out
	}
	for i := 0; i < n && i < len(vs); i++ {
		out[i] = byte(vs[i])
	}
	return out
}

// Str returns an arbitrary string of n bytes.
func Str(tag string, n int) string { return string(Bytes(tag, n)) }

// Param returns a concrete instance parameter chosen by the driver.
func Param(name string) int {
	v, ok := rf.Params[name]
	if !ok {
		panic("zzvrt: missing parameter " + name)
	}
	return v
}

// Assume restricts the inputs considered. Natively a failed assumption means the replayed
// model does not satisfy the harness precondition (engine bug), reported distinctly.
func Assume(c bool) {
	if !c {
		fmt.Println("VERIF-ASSUME-FAILED")
		os.Exit(3)
	}
}

// Assert states the property.
func Assert(c bool, label string) {
	if !c {
		panic("VERIF-ASSERT-FAILED " + label)
	}
}

// Cover marks a point that must be reachable (vacuity guard).
func Cover(label string) {}

// Stop ends the current path.
func Stop() { panic("VERIF-STOP") }

// Pick concretises a value (forks over its feasible values symbolically).
func Pick(v int) int { return v }

// LoopBudget sets how often one loop header may be decided symbolically per activation.
func LoopBudget(n int) {}

// MaxRecursion sets the recursion depth above which the executor reports a depth finding.
func MaxRecursion(n int) {}

// Spawned returns how many go statements were reached (ghost events); natively 0.
func Spawned() int { return 0 }

var blackhole net.Listener

// BlackholeAddr returns a TCP address whose connections are accepted by the kernel and never answered:
// goroutines the code under test spawns to dial it stay blocked in their handshake for the whole replay
// instead of racing with the harness (the symbolic executor does not execute goroutine bodies at all).
func BlackholeAddr() string {
	if blackhole == nil {
		l, err := net.Listen("tcp", "127.0.0.1:0")
		if err != nil {
			panic(err)
		}
		blackhole = l
	}
	return blackhole.Addr().String()
}

// NativeSleepMs sleeps natively and does nothing under the symbolic executor: used where the code under test
// derives names from the wall clock, so that two events the concrete clock of the executor keeps apart are
// also apart in the native replay.
func NativeSleepMs(ms int) { time.Sleep(time.Duration(ms) * time.Millisecond) }

// Symbolic reports whether the harness runs under the symbolic executor.
func Symbolic() bool { return false }

// And / Or combine conditions without control flow (one solver term instead of a fork per operand).
func And(a, b bool) bool { return a && b }
func Or(a, b bool) bool  { return a || b }

// Ite selects without control flow.
func Ite(c bool, a, b int) int {
	if c {
		return a
	}
	return b
}

// ConcreteClock makes every clock reading under the symbolic executor a concrete instant
// (start + k*step nanoseconds) for harnesses whose property does not depend on time; natively a no-op.
func ConcreteClock(startNanos, stepNanos int) {}
