package logic

import (
	"github.com/q191201771/lal/pkg/base"
	"github.com/q191201771/lal/pkg/rtmp"
	vrt "github.com/q191201771/lal/pkg/zzvrt"
)

type c16Hook struct{ msgs, stops int }

func (h *c16Hook) OnMsg(msg base.RtmpMsg) { h.msgs++ }
func (h *c16Hook) OnStop()                { h.stops++ }

// VerifC16CleanRestart: a publisher sends a first incarnation (pattern pat1), leaves, and a second
// publisher of the same name sends pat2; a subscriber joins in the second incarnation. Nothing of the
// first incarnation reaches it, the stream hook is stopped exactly once per incarnation, and the
// subscriber of an audio-only second incarnation is not left waiting for a video key frame.
func VerifC16CleanRestart() {
	cfg := kitConfig()
	cfg.RtmpConfig.GopNum = vrt.Param("gop")
	cfg.HttpflvConfig.GopNum = vrt.Param("gop")
	if vrt.Param("ts") == 1 {
		// HTTP-TS on: the RTMP->MPEG-TS remuxer runs and feeds the TS GOP cache
		cfg.HttptsConfig.Enable = true
		cfg.HttptsConfig.GopNum = vrt.Param("gop")
	}
	httpHooks := []*c16Hook{}
	opt := GroupOption{onHookSession: func(uniqueKey string, streamName string) ICustomizeHookSessionContext {
		h := &c16Hook{}
		httpHooks = append(httpHooks, h)
		return h
	}}
	obs := &kitGroupObserver{}
	vrt.ConcreteClock(1700000000000000000, 1000000)
	g := NewGroup("live", "s1", cfg, opt, obs)

	run := func(pat, n int, tag string) ([]int, []base.RtmpMsg) {
		kinds := make([]int, n)
		pub := make([]base.RtmpMsg, n)
		for i := 0; i < n; i++ {
			kinds[i] = pat % 6
			pat /= 6
			pub[i] = c01Make(kinds[i], tag)
		}
		return kinds, pub
	}
	// first incarnation
	p1, _ := kitRtmpSession()
	vrt.Assert(g.AddRtmpPubSession(p1) == nil, "first publisher accepted")
	// optionally a subscriber that is attached during the first incarnation and simply stays
	var stayConn = kitConnNil()
	if vrt.Param("stay") == 1 {
		var ss *rtmp.ServerSession
		ss, stayConn = kitRtmpSession()
		g.AddRtmpSubSession(ss)
	}
	_, pub1 := run(vrt.Param("pat1"), vrt.Param("n1"), "a")
	for _, m := range pub1 {
		g.OnReadRtmpAvMsg(m)
	}
	// optionally an audio-only run long enough for the TS remuxer to start without video (it waits for 16
	// messages) and to hold unflushed audio when the input leaves; bytes concrete, 23 ms apart
	if ao := vrt.Param("aonly"); ao > 0 {
		g.OnReadRtmpAvMsg(kitMsg(base.RtmpTypeIdAudio, 0, []byte{0xaf, 0x00, 0x12, 0x10}))
		for i := 0; i < ao; i++ {
			g.OnReadRtmpAvMsg(kitMsg(base.RtmpTypeIdAudio, uint32(23*i), []byte{0xaf, 0x01, 0x21, byte(i), 0x04, 0x60, 0x8c, 0x1c}))
		}
	}
	switch vrt.Param("end") {
	case 0:
		g.DelRtmpPubSession(p1)
	case 1: // a foreign session's departure first, then the real one
		other, _ := kitRtmpSession()
		g.DelRtmpPubSession(other)
		vrt.Assert(g.HasInSession(), "a foreign departure does not end the stream")
		g.DelRtmpPubSession(p1)
	}
	vrt.Assert(!g.HasInSession(), "input gone")
	vrt.Assert(len(httpHooks) == 1 && httpHooks[0].stops == 1, "stream hook told to stop exactly once")
	vrt.Assert(g.rtmpGopCache.GetGopCount() == 0 && g.rtmpGopCache.VideoSeqHeader == nil && g.rtmpGopCache.AacSeqHeader == nil && g.rtmpGopCache.MetadataEnsureWithoutSetDataFrame == nil, "no cached headers or GOPs remain (rtmp)")
	vrt.Assert(g.httpflvGopCache.GetGopCount() == 0 && g.httpflvGopCache.VideoSeqHeader == nil && g.httpflvGopCache.AacSeqHeader == nil, "no cached headers or GOPs remain (flv)")
	vrt.Assert(g.httptsGopCache.GetGopCount() == 0, "no cached GOPs remain (ts)")
	vrt.Assert(g.rtmp2MpegtsRemuxer == nil && g.rtmp2RtspRemuxer == nil && g.sdpCtx == nil && g.patpmt == nil, "remuxers and their headers released")

	// second incarnation
	p2, _ := kitRtmpSession()
	vrt.Assert(g.AddRtmpPubSession(p2) == nil, "second publisher accepted")
	n2 := vrt.Param("n2")
	kinds2, pub2 := run(vrt.Param("pat2"), n2, "b")
	join := vrt.Pick(vrt.Range("join", 0, n2))
	var sub *rtmp.ServerSession
	subConn := kitConnNil()
	for i := 0; i <= n2; i++ {
		if i == join {
			sub, subConn = kitRtmpSession()
			g.AddRtmpSubSession(sub)
		}
		if i < n2 {
			g.OnReadRtmpAvMsg(pub2[i])
		}
	}
	rd := &refChunkReader{chunkSize: rtmp.LocalChunkSize}
	vrt.Assert(rd.readAll(subConn.All()), "rtmp: log is a well-formed chunk stream")
	var got []c01Recv
	for _, m := range rd.out {
		got = append(got, c01Recv{typ: m.typ, ts: m.ts, payload: m.payload})
	}
	// the second incarnation's consumer sees exactly what a consumer of a fresh stream would see
	c01Check("restart", got, pub2, kinds2, join, cfg.RtmpConfig.GopNum)
	vrt.Assert(len(httpHooks) == 2 && httpHooks[1].stops == 0 && httpHooks[1].msgs == n2, "second incarnation has its own hook")
	if vrt.Param("stay") == 1 {
		// the subscriber that stayed attached gets the whole second incarnation (it is not left waiting for a
		// key frame that an audio-only successor never sends)
		rs := &refChunkReader{chunkSize: rtmp.LocalChunkSize}
		vrt.Assert(rs.readAll(stayConn.All()), "staying subscriber: log is a well-formed chunk stream")
		vrt.Assert(len(rs.out) >= n2, "staying subscriber: receives the second incarnation")
		if len(rs.out) >= n2 {
			tail := rs.out[len(rs.out)-n2:]
			for i := 0; i < n2; i++ {
				vrt.Assert(c01Same(c01Recv{typ: tail[i].typ, ts: tail[i].ts, payload: tail[i].payload}, pub2[i]), "staying subscriber: second incarnation delivered in full, in order")
			}
		}
	}
	vrt.Cover("end")
}
