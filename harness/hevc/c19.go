package hevc

import (
	vrt "github.com/q191201771/lal/pkg/zzvrt"
)

var (
	c19Vps = []byte{0x40, 0x01, 0x0c, 0x01, 0xff, 0xff, 0x01, 0x60, 0x00, 0x00, 0x03, 0x00, 0x90, 0x00, 0x00, 0x03, 0x00, 0x00, 0x03, 0x00, 0x3f, 0xba, 0x02, 0x40}
	c19Sps = []byte{0x42, 0x01, 0x01, 0x01, 0x60, 0x00, 0x00, 0x03, 0x00, 0x90, 0x00, 0x00, 0x03, 0x00, 0x00, 0x03, 0x00, 0x3f, 0xa0, 0x05, 0x02, 0x01, 0x71, 0xf2, 0xe5, 0xba, 0x4a, 0x4c, 0x2f, 0x01, 0x01, 0x00, 0x00, 0x03, 0x00, 0x01, 0x00, 0x00, 0x03, 0x00, 0x0f, 0x08}
)

func c19eq(a, b []byte) bool {
	if len(a) != len(b) {
		return false
	}
	for i := range a {
		if a[i] != b[i] {
			return false
		}
	}
	return true
}

// VerifC19HevcSeqHeader: VPS/SPS/PPS -> sequence header -> sets -> Annex-B, byte for byte.
func VerifC19HevcSeqHeader() {
	vps := append(append([]byte{}, c19Vps...), vrt.Bytes("vtail", vrt.Param("vtail"))...)
	sps := append(append([]byte{}, c19Sps...), vrt.Bytes("stail", vrt.Param("stail"))...)
	pps := vrt.Bytes("pps", vrt.Param("plen"))
	sh, err := BuildSeqHeaderFromVpsSpsPps(vps, sps, pps)
	vrt.Assert(err == nil, "valid sets accepted")
	if err != nil {
		return
	}
	v1, s1, p1, err := ParseVpsSpsPpsFromSeqHeader(sh)
	vrt.Assert(err == nil, "ParseVpsSpsPpsFromSeqHeader ok")
	vrt.Assert(c19eq(v1, vps) && c19eq(s1, sps) && c19eq(p1, pps), "sets recovered byte for byte")
	ab, err := VpsSpsPpsSeqHeader2Annexb(sh)
	want := append([]byte{0, 0, 0, 1}, vps...)
	want = append(append(want, 0, 0, 0, 1), sps...)
	want = append(append(want, 0, 0, 0, 1), pps...)
	vrt.Assert(err == nil && c19eq(ab, want), "Annex-B form = start code + set, in order")
	ab2, err := BuildVpsSpsPps2Annexb(vps, sps, pps)
	vrt.Assert(err == nil && c19eq(ab2, want), "BuildVpsSpsPps2Annexb agrees")
	// enhanced-RTMP variant: same record behind a different first byte
	eh := append([]byte{}, sh...)
	eh[0] = 0x90
	v3, s3, p3, err := ParseVpsSpsPpsFromEnhancedSeqHeader(eh)
	vrt.Assert(err == nil && c19eq(v3, vps) && c19eq(s3, sps) && c19eq(p3, pps), "enhanced sequence header: sets recovered")
	vrt.Cover("end")
}

// VerifC19HevcArbitrary: ParseSps / ParseVps on arbitrary bytes never panic.
func VerifC19HevcArbitrary() {
	b := vrt.Bytes("b", vrt.Param("n"))
	ctx := newContext()
	if vrt.Param("fn") == 0 {
		_ = ParseSps(b, ctx)
	} else {
		_ = ParseVps(b, ctx)
	}
	vrt.Cover("end")
}
