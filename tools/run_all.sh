#!/bin/bash
# runs every registered check at the given tier (default quick) sequentially and prints one line each
cd "$(dirname "$0")/.."
tier="${1:-quick}"
for id in $(python3 -c "import json;print(' '.join(c['property_id'] for c in json.load(open('MANIFEST.json'))['checks']))"); do
  s=$(date +%s)
  out=$(timeout 3600 ./check $id $tier 2>&1); code=$?
  e=$(date +%s)
  echo "$id exit=$code $((e-s))s | $(echo "$out" | grep -E "^$id " | head -1 | cut -c1-160)"
  echo "$out" | grep -E "VIOLATION|INCONCLUSIVE|ENGINE-MISMATCH|KNOWN-FINDING" | head -5 | cut -c1-240
done
