// Package sym is a bounded symbolic executor for Go SSA that emits SMT-LIB2.
package sym

import (
	"fmt"
	"math/bits"
	"strings"
)

// Op is a term operator.
type Op uint8

const (
	OConst Op = iota
	OVar
	ONot
	OAnd
	OOr
	OEq
	OIte
	OAdd
	OSub
	OMul
	OUDiv
	OURem
	OSDiv
	OSRem
	OBAnd
	OBOr
	OBXor
	OBNot
	ONeg
	OShl
	OLShr
	OAShr
	OUlt
	OUle
	OSlt
	OSle
	OConcat
	OExtract
	OSExt
	OApp // named function application (uninterpreted or FP theory wrapper)
)

var opName = map[Op]string{
	ONot: "not", OAnd: "and", OOr: "or", OEq: "=", OIte: "ite",
	OAdd: "bvadd", OSub: "bvsub", OMul: "bvmul", OUDiv: "bvudiv", OURem: "bvurem",
	OSDiv: "bvsdiv", OSRem: "bvsrem", OBAnd: "bvand", OBOr: "bvor", OBXor: "bvxor",
	OBNot: "bvnot", ONeg: "bvneg", OShl: "bvshl", OLShr: "bvlshr", OAShr: "bvashr",
	OUlt: "bvult", OUle: "bvule", OSlt: "bvslt", OSle: "bvsle", OConcat: "concat",
}

// Term is a hash-consed node. W==0 means Bool, otherwise a bit-vector of width W (1..64).
type Term struct {
	ID     int
	Op     Op
	W      int
	Args   []*Term
	Val    uint64
	Hi, Lo int
	Name   string
	zeros  uint64 // bits known to be zero (bit-vectors only)
}

type termKey struct {
	op         Op
	w          int
	a0, a1, a2 int
	val        uint64
	hi, lo     int
	name       string
}

// FunDecl describes an uninterpreted function.
type FunDecl struct {
	Name string
	Args []int
	Res  int
}

// Store owns terms (one per worker; not safe for concurrent use).
type Store struct {
	tab   map[termKey]*Term
	n     int
	Funs  map[string]*FunDecl
	T, F  *Term
	NSimp int // comparisons decided by the simplifier (statistics)
}

func NewStore() *Store {
	s := &Store{tab: map[termKey]*Term{}, Funs: map[string]*FunDecl{}}
	s.T = s.mk(OConst, 0, nil, 1, 0, 0, "")
	s.F = s.mk(OConst, 0, nil, 0, 0, 0, "")
	return s
}

func mask(w int) uint64 {
	if w >= 64 {
		return ^uint64(0)
	}
	return (uint64(1) << uint(w)) - 1
}

func (s *Store) mk(op Op, w int, args []*Term, val uint64, hi, lo int, name string) *Term {
	k := termKey{op: op, w: w, val: val, hi: hi, lo: lo, name: name, a0: -1, a1: -1, a2: -1}
	if len(args) > 0 {
		k.a0 = args[0].ID
	}
	if len(args) > 1 {
		k.a1 = args[1].ID
	}
	if len(args) > 2 {
		k.a2 = args[2].ID
	}
	if len(args) > 3 {
		// fold remaining ids into name
		var sb strings.Builder
		sb.WriteString(name)
		for _, a := range args[3:] {
			fmt.Fprintf(&sb, ",%d", a.ID)
		}
		k.name = sb.String()
	}
	if t, ok := s.tab[k]; ok {
		return t
	}
	t := &Term{ID: s.n, Op: op, W: w, Args: args, Val: val, Hi: hi, Lo: lo, Name: name}
	s.n++
	if w > 0 {
		t.zeros = s.calcZeros(t)
	}
	s.tab[k] = t
	return t
}

func (s *Store) calcZeros(t *Term) uint64 {
	m := mask(t.W)
	switch t.Op {
	case OConst:
		return ^t.Val & m
	case OConcat:
		a, b := t.Args[0], t.Args[1]
		return ((a.zeros << uint(b.W)) | b.zeros) & m
	case OExtract:
		return (t.Args[0].zeros >> uint(t.Lo)) & m
	case OBAnd:
		return (t.Args[0].zeros | t.Args[1].zeros) & m
	case OBOr, OBXor:
		return (t.Args[0].zeros & t.Args[1].zeros) & m
	case OIte:
		return t.Args[1].zeros & t.Args[2].zeros & m
	case OAdd:
		// if a<=ma and b<=mb and no overflow then result <= ma+mb
		ma, mb := t.Args[0].Max(), t.Args[1].Max()
		sum := ma + mb
		if sum >= ma && sum <= m {
			return highZeros(sum, t.W)
		}
	case OMul:
		ma, mb := t.Args[0].Max(), t.Args[1].Max()
		hi, lo := bits.Mul64(ma, mb)
		if hi == 0 && lo <= m {
			return highZeros(lo, t.W)
		}
	case OUDiv:
		if t.Args[1].Op == OConst && t.Args[1].Val > 0 {
			return highZeros(t.Args[0].Max()/t.Args[1].Val, t.W)
		}
		return highZeros(t.Args[0].Max(), t.W)
	case OURem:
		mx := t.Args[0].Max()
		if t.Args[1].Op == OConst && t.Args[1].Val > 0 && t.Args[1].Val-1 < mx {
			mx = t.Args[1].Val - 1
		}
		return highZeros(mx, t.W)
	case OLShr:
		return highZeros(t.Args[0].Max(), t.W)
	}
	return 0
}

// highZeros returns the mask of bits above the highest set bit of mx.
func highZeros(mx uint64, w int) uint64 {
	n := bits.Len64(mx)
	return mask(w) &^ mask(n)
}

// Max is an upper bound of the unsigned value.
func (t *Term) Max() uint64 {
	if t.Op == OConst {
		return t.Val
	}
	return mask(t.W) &^ t.zeros
}

func (t *Term) IsConst() bool { return t.Op == OConst }
func (t *Term) IsTrue() bool  { return t.Op == OConst && t.W == 0 && t.Val == 1 }
func (t *Term) IsFalse() bool { return t.Op == OConst && t.W == 0 && t.Val == 0 }

func (s *Store) Const(w int, v uint64) *Term {
	if w == 0 {
		return s.Bool(v != 0)
	}
	return s.mk(OConst, w, nil, v&mask(w), 0, 0, "")
}

func (s *Store) Bool(b bool) *Term {
	if b {
		return s.T
	}
	return s.F
}

func (s *Store) Var(name string, w int) *Term {
	return s.mk(OVar, w, nil, 0, 0, 0, name)
}

// App applies a named function (declared on first use for uninterpreted ones).
func (s *Store) App(name string, w int, args ...*Term) *Term {
	if _, ok := s.Funs[name]; !ok && !strings.HasPrefix(name, "fp:") {
		d := &FunDecl{Name: name, Res: w}
		for _, a := range args {
			d.Args = append(d.Args, a.W)
		}
		s.Funs[name] = d
	}
	return s.mk(OApp, w, args, 0, 0, 0, name)
}

func (s *Store) Not(a *Term) *Term {
	if a.W != 0 {
		panic("Not on non-bool")
	}
	switch a.Op {
	case OConst:
		return s.Bool(a.Val == 0)
	case ONot:
		return a.Args[0]
	case OUlt:
		return s.Cmp(OUle, a.Args[1], a.Args[0])
	case OUle:
		return s.Cmp(OUlt, a.Args[1], a.Args[0])
	case OSlt:
		return s.Cmp(OSle, a.Args[1], a.Args[0])
	case OSle:
		return s.Cmp(OSlt, a.Args[1], a.Args[0])
	}
	return s.mk(ONot, 0, []*Term{a}, 0, 0, 0, "")
}

func isNegOf(a, b *Term) bool {
	return (a.Op == ONot && a.Args[0] == b) || (b.Op == ONot && b.Args[0] == a)
}

func (s *Store) And(a, b *Term) *Term {
	if a.IsFalse() || b.IsFalse() {
		return s.F
	}
	if a.IsTrue() {
		return b
	}
	if b.IsTrue() {
		return a
	}
	if a == b {
		return a
	}
	if isNegOf(a, b) {
		return s.F
	}
	if a.ID > b.ID {
		a, b = b, a
	}
	return s.mk(OAnd, 0, []*Term{a, b}, 0, 0, 0, "")
}

func (s *Store) Or(a, b *Term) *Term {
	if a.IsTrue() || b.IsTrue() {
		return s.T
	}
	if a.IsFalse() {
		return b
	}
	if b.IsFalse() {
		return a
	}
	if a == b {
		return a
	}
	if isNegOf(a, b) {
		return s.T
	}
	if a.ID > b.ID {
		a, b = b, a
	}
	return s.mk(OOr, 0, []*Term{a, b}, 0, 0, 0, "")
}

func (s *Store) Implies(a, b *Term) *Term { return s.Or(s.Not(a), b) }

func (s *Store) Eq(a, b *Term) *Term {
	if a.W != b.W {
		panic(fmt.Sprintf("Eq width mismatch %d %d", a.W, b.W))
	}
	if a == b {
		s.NSimp++
		return s.T
	}
	if a.Op == OConst && b.Op == OConst {
		s.NSimp++
		return s.Bool(a.Val == b.Val)
	}
	if a.Op == OConst {
		a, b = b, a
	}
	if a.W == 0 {
		if b.IsTrue() {
			return a
		}
		if b.IsFalse() {
			return s.Not(a)
		}
	} else if b.Op == OConst {
		if b.Val&a.zeros != 0 {
			s.NSimp++
			return s.F
		}
		switch a.Op {
		case OIte:
			x, y := a.Args[1], a.Args[2]
			if x.Op == OConst && y.Op == OConst {
				switch {
				case x.Val == b.Val && y.Val == b.Val:
					return s.T
				case x.Val == b.Val:
					return a.Args[0]
				case y.Val == b.Val:
					return s.Not(a.Args[0])
				default:
					return s.F
				}
			}
			if x.Op == OConst || y.Op == OConst {
				return s.Ite(a.Args[0], s.Eq(x, b), s.Eq(y, b))
			}
		case OConcat:
			lw := a.Args[1].W
			return s.And(s.Eq(a.Args[0], s.Const(a.Args[0].W, b.Val>>uint(lw))),
				s.Eq(a.Args[1], s.Const(lw, b.Val)))
		case OAdd:
			if a.Args[1].Op == OConst { // x + c == k  <=>  x == k - c
				return s.Eq(a.Args[0], s.Const(a.W, b.Val-a.Args[1].Val))
			}
		case OBXor:
			if a.Args[1].Op == OConst {
				return s.Eq(a.Args[0], s.Const(a.W, b.Val^a.Args[1].Val))
			}
		}
	} else if a.Op == OConcat && b.Op == OConcat && a.Args[1].W == b.Args[1].W {
		return s.And(s.Eq(a.Args[0], b.Args[0]), s.Eq(a.Args[1], b.Args[1]))
	}
	if a.ID > b.ID {
		a, b = b, a
	}
	return s.mk(OEq, 0, []*Term{a, b}, 0, 0, 0, "")
}

func (s *Store) Ite(c, a, b *Term) *Term {
	if a.W != b.W {
		panic("Ite width mismatch")
	}
	if c.IsTrue() {
		return a
	}
	if c.IsFalse() {
		return b
	}
	if a == b {
		return a
	}
	if c.Op == ONot {
		return s.Ite(c.Args[0], b, a)
	}
	if a.W == 0 {
		if a.IsTrue() && b.IsFalse() {
			return c
		}
		if a.IsFalse() && b.IsTrue() {
			return s.Not(c)
		}
		if a.IsTrue() {
			return s.Or(c, b)
		}
		if a.IsFalse() {
			return s.And(s.Not(c), b)
		}
		if b.IsTrue() {
			return s.Or(s.Not(c), a)
		}
		if b.IsFalse() {
			return s.And(c, a)
		}
	}
	// ite(c, x, ite(c, y, z)) -> ite(c, x, z)
	if b.Op == OIte && b.Args[0] == c {
		return s.Ite(c, a, b.Args[2])
	}
	if a.Op == OIte && a.Args[0] == c {
		return s.Ite(c, a.Args[1], b)
	}
	return s.mk(OIte, a.W, []*Term{c, a, b}, 0, 0, 0, "")
}

func signBitClear(t *Term) bool { return t.Max() < uint64(1)<<uint(t.W-1) }

func toSigned(v uint64, w int) int64 {
	if w < 64 && v&(uint64(1)<<uint(w-1)) != 0 {
		return int64(v | ^mask(w))
	}
	return int64(v)
}

// Cmp builds an ordering comparison.
func (s *Store) Cmp(op Op, a, b *Term) *Term {
	if a.W != b.W || a.W == 0 {
		panic(fmt.Sprintf("Cmp width mismatch %d %d", a.W, b.W))
	}
	if a.Op == OConst && b.Op == OConst {
		s.NSimp++
		switch op {
		case OUlt:
			return s.Bool(a.Val < b.Val)
		case OUle:
			return s.Bool(a.Val <= b.Val)
		case OSlt:
			return s.Bool(toSigned(a.Val, a.W) < toSigned(b.Val, b.W))
		case OSle:
			return s.Bool(toSigned(a.Val, a.W) <= toSigned(b.Val, b.W))
		}
	}
	if a == b {
		s.NSimp++
		return s.Bool(op == OUle || op == OSle)
	}
	if (op == OSlt || op == OSle) && signBitClear(a) && signBitClear(b) {
		if op == OSlt {
			op = OUlt
		} else {
			op = OUle
		}
	}
	switch op {
	case OUlt:
		if b.Op == OConst && b.Val == 0 {
			s.NSimp++
			return s.F
		}
		if b.Op == OConst && a.Max() < b.Val {
			s.NSimp++
			return s.T
		}
		if a.Op == OConst && a.Val >= b.Max() {
			s.NSimp++
			return s.F
		}
		if a.Op == OConst && a.Val == 0 {
			return s.Not(s.Eq(b, a))
		}
	case OUle:
		if a.Op == OConst && a.Val == 0 {
			s.NSimp++
			return s.T
		}
		if b.Op == OConst && a.Max() <= b.Val {
			s.NSimp++
			return s.T
		}
		if a.Op == OConst && a.Val > b.Max() {
			s.NSimp++
			return s.F
		}
		if b.Op == OConst && b.Val == 0 {
			return s.Eq(a, b)
		}
	case OSlt:
		// negative constant vs value with clear sign bit
		if b.Op == OConst && signBitClear(a) && toSigned(b.Val, b.W) <= 0 {
			s.NSimp++
			return s.F
		}
		if a.Op == OConst && signBitClear(b) && toSigned(a.Val, a.W) < 0 {
			s.NSimp++
			return s.T
		}
	case OSle:
		if b.Op == OConst && signBitClear(a) && toSigned(b.Val, b.W) < 0 {
			s.NSimp++
			return s.F
		}
		if a.Op == OConst && signBitClear(b) && toSigned(a.Val, a.W) <= 0 {
			s.NSimp++
			return s.T
		}
	}
	return s.mk(op, 0, []*Term{a, b}, 0, 0, 0, "")
}

// segments flattens nested concats, most significant first.
func segments(t *Term, out []*Term) []*Term {
	if t.Op == OConcat {
		out = segments(t.Args[0], out)
		return segments(t.Args[1], out)
	}
	return append(out, t)
}

func (s *Store) Concat(a, b *Term) *Term {
	if a.W+b.W > 64 {
		panic("Concat wider than 64")
	}
	segs := segments(b, segments(a, nil))
	// merge adjacent
	out := segs[:0:0]
	for _, sg := range segs {
		if n := len(out); n > 0 {
			p := out[n-1]
			if p.Op == OConst && sg.Op == OConst {
				out[n-1] = s.Const(p.W+sg.W, p.Val<<uint(sg.W)|sg.Val)
				continue
			}
			if p.Op == OExtract && sg.Op == OExtract && p.Args[0] == sg.Args[0] && p.Lo == sg.Hi+1 {
				out[n-1] = s.Extract(p.Args[0], p.Hi, sg.Lo)
				continue
			}
		}
		out = append(out, sg)
	}
	r := out[len(out)-1]
	for i := len(out) - 2; i >= 0; i-- {
		r = s.mk(OConcat, out[i].W+r.W, []*Term{out[i], r}, 0, 0, 0, "")
	}
	return r
}

func (s *Store) ZExt(a *Term, w int) *Term {
	if w == a.W {
		return a
	}
	if w < a.W {
		panic("ZExt narrowing")
	}
	return s.Concat(s.Const(w-a.W, 0), a)
}

func (s *Store) SExt(a *Term, w int) *Term {
	if w == a.W {
		return a
	}
	if a.Op == OConst {
		return s.Const(w, uint64(toSigned(a.Val, a.W)))
	}
	if signBitClear(a) {
		return s.ZExt(a, w)
	}
	return s.mk(OSExt, w, []*Term{a}, 0, 0, 0, "")
}

// Trunc keeps the low w bits.
func (s *Store) Trunc(a *Term, w int) *Term {
	if w == a.W {
		return a
	}
	return s.Extract(a, w-1, 0)
}

func (s *Store) Extract(a *Term, hi, lo int) *Term {
	if hi < lo || hi >= a.W || lo < 0 {
		panic(fmt.Sprintf("bad extract [%d:%d] of width %d", hi, lo, a.W))
	}
	w := hi - lo + 1
	if w == a.W {
		return a
	}
	switch a.Op {
	case OConst:
		return s.Const(w, a.Val>>uint(lo))
	case OExtract:
		return s.Extract(a.Args[0], hi+a.Lo, lo+a.Lo)
	case OConcat:
		x, y := a.Args[0], a.Args[1]
		if hi < y.W {
			return s.Extract(y, hi, lo)
		}
		if lo >= y.W {
			return s.Extract(x, hi-y.W, lo-y.W)
		}
		return s.Concat(s.Extract(x, hi-y.W, 0), s.Extract(y, y.W-1, lo))
	case OIte:
		if a.Args[1].Op == OConst || a.Args[2].Op == OConst {
			return s.Ite(a.Args[0], s.Extract(a.Args[1], hi, lo), s.Extract(a.Args[2], hi, lo))
		}
	case OBAnd, OBOr, OBXor:
		return s.Bin(a.Op, s.Extract(a.Args[0], hi, lo), s.Extract(a.Args[1], hi, lo))
	case OBNot:
		return s.BNot(s.Extract(a.Args[0], hi, lo))
	case OAdd, OSub, OMul:
		if lo == 0 {
			return s.Bin(a.Op, s.Extract(a.Args[0], hi, 0), s.Extract(a.Args[1], hi, 0))
		}
	case ONeg:
		if lo == 0 {
			return s.Neg(s.Extract(a.Args[0], hi, 0))
		}
	case OSExt:
		if hi < a.Args[0].W {
			return s.Extract(a.Args[0], hi, lo)
		}
	}
	if (mask(w)<<uint(lo))&^a.zeros == 0 {
		return s.Const(w, 0)
	}
	return s.mk(OExtract, w, []*Term{a}, 0, hi, lo, "")
}

func (s *Store) BNot(a *Term) *Term {
	if a.Op == OConst {
		return s.Const(a.W, ^a.Val)
	}
	if a.Op == OBNot {
		return a.Args[0]
	}
	return s.mk(OBNot, a.W, []*Term{a}, 0, 0, 0, "")
}

func (s *Store) Neg(a *Term) *Term {
	if a.Op == OConst {
		return s.Const(a.W, -a.Val)
	}
	if a.Op == ONeg {
		return a.Args[0]
	}
	return s.mk(ONeg, a.W, []*Term{a}, 0, 0, 0, "")
}

// constRuns splits a constant into maximal runs of equal bits, msb first; returns nil if more than max runs.
func (s *Store) constRuns(c *Term, max int) []*Term {
	var out []*Term
	w := c.W
	i := w - 1
	for i >= 0 {
		bit := (c.Val >> uint(i)) & 1
		j := i
		for j >= 0 && (c.Val>>uint(j))&1 == bit {
			j--
		}
		n := i - j
		v := uint64(0)
		if bit == 1 {
			v = mask(n)
		}
		out = append(out, s.Const(n, v))
		if len(out) > max {
			return nil
		}
		i = j
	}
	return out
}

func isZeroOrOnes(t *Term) bool {
	return t.Op == OConst && (t.Val == 0 || t.Val == mask(t.W))
}

// segBitwise tries to resolve a bitwise op piecewise when operands are concats / run constants.
func (s *Store) segBitwise(op Op, a, b *Term) *Term {
	getSegs := func(t *Term) []*Term {
		if t.Op == OConst {
			if r := s.constRuns(t, 6); r != nil {
				return r
			}
			return []*Term{t}
		}
		return segments(t, nil)
	}
	sa, sb := getSegs(a), getSegs(b)
	if len(sa) == 1 && len(sb) == 1 {
		return nil
	}
	// boundaries (bit positions from lsb) union
	bounds := map[int]bool{}
	pos := a.W
	for _, x := range sa {
		pos -= x.W
		bounds[pos] = true
	}
	pos = b.W
	for _, x := range sb {
		pos -= x.W
		bounds[pos] = true
	}
	// iterate pieces from msb
	var pieces []*Term
	hi := a.W - 1
	for hi >= 0 {
		lo := hi
		for !bounds[lo] {
			lo--
		}
		pa, pb := s.Extract(a, hi, lo), s.Extract(b, hi, lo)
		var r *Term
		switch {
		case pa.Op == OConst && pb.Op == OConst:
			r = s.Bin(op, pa, pb)
		case isZeroOrOnes(pa) || isZeroOrOnes(pb):
			r = s.Bin(op, pa, pb)
		case pa == pb:
			r = s.Bin(op, pa, pb)
		default:
			return nil
		}
		pieces = append(pieces, r)
		hi = lo - 1
	}
	r := pieces[len(pieces)-1]
	for i := len(pieces) - 2; i >= 0; i-- {
		r = s.Concat(pieces[i], r)
	}
	return r
}

// Bin builds arithmetic / bitwise binary operations on equal-width bit-vectors.
func (s *Store) Bin(op Op, a, b *Term) *Term {
	if a.W != b.W || a.W == 0 {
		panic(fmt.Sprintf("Bin %v width mismatch %d %d", opName[op], a.W, b.W))
	}
	w := a.W
	m := mask(w)
	if a.Op == OConst && b.Op == OConst {
		x, y := a.Val, b.Val
		switch op {
		case OAdd:
			return s.Const(w, x+y)
		case OSub:
			return s.Const(w, x-y)
		case OMul:
			return s.Const(w, x*y)
		case OUDiv:
			if y == 0 {
				return s.Const(w, m)
			}
			return s.Const(w, x/y)
		case OURem:
			if y == 0 {
				return a
			}
			return s.Const(w, x%y)
		case OSDiv:
			if y == 0 {
				break
			}
			sx, sy := toSigned(x, w), toSigned(y, w)
			if sy == -1 {
				return s.Const(w, uint64(-sx))
			}
			return s.Const(w, uint64(sx/sy))
		case OSRem:
			if y == 0 {
				break
			}
			sx, sy := toSigned(x, w), toSigned(y, w)
			if sy == -1 {
				return s.Const(w, 0)
			}
			return s.Const(w, uint64(sx%sy))
		case OBAnd:
			return s.Const(w, x&y)
		case OBOr:
			return s.Const(w, x|y)
		case OBXor:
			return s.Const(w, x^y)
		case OShl:
			if y >= uint64(w) {
				return s.Const(w, 0)
			}
			return s.Const(w, x<<y)
		case OLShr:
			if y >= uint64(w) {
				return s.Const(w, 0)
			}
			return s.Const(w, x>>y)
		case OAShr:
			if y >= uint64(w) {
				y = uint64(w - 1)
			}
			return s.Const(w, uint64(toSigned(x, w)>>y))
		}
	}
	switch op {
	case OAdd:
		if a.Op == OConst {
			a, b = b, a
		}
		if b.Op == OConst {
			if b.Val == 0 {
				return a
			}
			if a.Op == OAdd && a.Args[1].Op == OConst {
				return s.Bin(OAdd, a.Args[0], s.Const(w, a.Args[1].Val+b.Val))
			}
		}
		if (^a.zeros&^b.zeros)&m == 0 { // disjoint bits: addition is or
			if r := s.segBitwise(OBOr, a, b); r != nil {
				return r
			}
		}
		if b.Op != OConst && a.ID > b.ID {
			a, b = b, a
		}
	case OSub:
		if b.Op == OConst {
			return s.Bin(OAdd, a, s.Const(w, -b.Val))
		}
		if a == b {
			return s.Const(w, 0)
		}
		// (x + c) - x = c
		if a.Op == OAdd && a.Args[0] == b {
			return a.Args[1]
		}
		if a.Op == OAdd && a.Args[1] == b {
			return a.Args[0]
		}
	case OMul:
		if a.Op == OConst {
			a, b = b, a
		}
		if b.Op == OConst {
			if b.Val == 0 {
				return b
			}
			if b.Val == 1 {
				return a
			}
			if b.Val&(b.Val-1) == 0 {
				return s.Bin(OShl, a, s.Const(w, uint64(bits.TrailingZeros64(b.Val))))
			}
		} else if a.ID > b.ID {
			a, b = b, a
		}
	case OUDiv:
		if b.Op == OConst && b.Val != 0 {
			if b.Val == 1 {
				return a
			}
			if b.Val&(b.Val-1) == 0 {
				return s.Bin(OLShr, a, s.Const(w, uint64(bits.TrailingZeros64(b.Val))))
			}
			if a.Max() < b.Val {
				return s.Const(w, 0)
			}
		}
	case OURem:
		if b.Op == OConst && b.Val != 0 {
			if b.Val == 1 {
				return s.Const(w, 0)
			}
			if b.Val&(b.Val-1) == 0 {
				return s.Bin(OBAnd, a, s.Const(w, b.Val-1))
			}
			if a.Max() < b.Val {
				return a
			}
		}
	case OSDiv, OSRem:
		if b.Op == OConst && b.Val != 0 && signBitClear(a) && signBitClear(b) {
			if op == OSDiv {
				return s.Bin(OUDiv, a, b)
			}
			return s.Bin(OURem, a, b)
		}
	case OBAnd, OBOr, OBXor:
		if a.Op == OConst {
			a, b = b, a
		}
		if a == b {
			if op == OBXor {
				return s.Const(w, 0)
			}
			return a
		}
		if b.Op == OConst {
			switch {
			case b.Val == 0 && op == OBAnd:
				return b
			case b.Val == 0:
				return a
			case b.Val == m && op == OBAnd:
				return a
			case b.Val == m && op == OBOr:
				return b
			case b.Val == m && op == OBXor:
				return s.BNot(a)
			}
			if op == OBAnd && a.Op == OBAnd && a.Args[1].Op == OConst {
				return s.Bin(OBAnd, a.Args[0], s.Const(w, a.Args[1].Val&b.Val))
			}
			if op == OBAnd && (^a.zeros&m)&^b.Val == 0 {
				return a // mask keeps every possibly-set bit
			}
		}
		if op == OBAnd && (^a.zeros&^b.zeros)&m == 0 {
			return s.Const(w, 0)
		}
		if r := s.segBitwise(op, a, b); r != nil {
			return r
		}
		if b.Op != OConst && a.ID > b.ID {
			a, b = b, a
		}
	case OShl:
		if b.Op == OConst {
			k := b.Val
			if k == 0 {
				return a
			}
			if k >= uint64(w) {
				return s.Const(w, 0)
			}
			return s.Concat(s.Extract(a, w-1-int(k), 0), s.Const(int(k), 0))
		}
		if a.Op == OConst && a.Val == 0 {
			return a
		}
	case OLShr:
		if b.Op == OConst {
			k := b.Val
			if k == 0 {
				return a
			}
			if k >= uint64(w) {
				return s.Const(w, 0)
			}
			return s.ZExt(s.Extract(a, w-1, int(k)), w)
		}
		if a.Op == OConst && a.Val == 0 {
			return a
		}
	case OAShr:
		if b.Op == OConst {
			k := b.Val
			if k == 0 {
				return a
			}
			if k >= uint64(w) {
				k = uint64(w - 1)
			}
			return s.SExt(s.Extract(a, w-1, int(k)), w)
		}
		if signBitClear(a) {
			return s.Bin(OLShr, a, b)
		}
	}
	return s.mk(op, w, []*Term{a, b}, 0, 0, 0, "")
}

// ---- printing ----

func sortStr(w int) string {
	if w == 0 {
		return "Bool"
	}
	return fmt.Sprintf("(_ BitVec %d)", w)
}

func (t *Term) leafStr() string {
	switch t.Op {
	case OConst:
		if t.W == 0 {
			if t.Val != 0 {
				return "true"
			}
			return "false"
		}
		return fmt.Sprintf("(_ bv%d %d)", t.Val, t.W)
	case OVar:
		return t.Name
	}
	return fmt.Sprintf("t%d", t.ID)
}

var fpRender = map[string]string{
	// name -> format with %s args; all operate on IEEE bit patterns (BV64)
	"fp:add64":  "(fp.to_ieee_bv (fp.add RNE ((_ to_fp 11 53) %s) ((_ to_fp 11 53) %s)))",
	"fp:sub64":  "(fp.to_ieee_bv (fp.sub RNE ((_ to_fp 11 53) %s) ((_ to_fp 11 53) %s)))",
	"fp:mul64":  "(fp.to_ieee_bv (fp.mul RNE ((_ to_fp 11 53) %s) ((_ to_fp 11 53) %s)))",
	"fp:div64":  "(fp.to_ieee_bv (fp.div RNE ((_ to_fp 11 53) %s) ((_ to_fp 11 53) %s)))",
	"fp:neg64":  "(fp.to_ieee_bv (fp.neg ((_ to_fp 11 53) %s)))",
	"fp:lt64":   "(fp.lt ((_ to_fp 11 53) %s) ((_ to_fp 11 53) %s))",
	"fp:le64":   "(fp.leq ((_ to_fp 11 53) %s) ((_ to_fp 11 53) %s))",
	"fp:eq64":   "(fp.eq ((_ to_fp 11 53) %s) ((_ to_fp 11 53) %s))",
	"fp:s2f64":  "(fp.to_ieee_bv ((_ to_fp 11 53) RNE %s))",
	"fp:u2f64":  "(fp.to_ieee_bv ((_ to_fp_unsigned 11 53) RNE %s))",
	"fp:f2s64":  "((_ fp.to_sbv 64) RTZ ((_ to_fp 11 53) %s))",
	"fp:f2u64":  "((_ fp.to_ubv 64) RTZ ((_ to_fp 11 53) %s))",
	"fp:f2s32":  "((_ fp.to_sbv 32) RTZ ((_ to_fp 11 53) %s))",
	"fp:f2u32":  "((_ fp.to_ubv 32) RTZ ((_ to_fp 11 53) %s))",
	"fp:f2u16":  "((_ fp.to_ubv 16) RTZ ((_ to_fp 11 53) %s))",
	"fp:f2u8":   "((_ fp.to_ubv 8) RTZ ((_ to_fp 11 53) %s))",
	"fp:f2s16":  "((_ fp.to_sbv 16) RTZ ((_ to_fp 11 53) %s))",
	"fp:f2s8":   "((_ fp.to_sbv 8) RTZ ((_ to_fp 11 53) %s))",
	"fp:64to32": "(fp.to_ieee_bv ((_ to_fp 8 24) RNE ((_ to_fp 11 53) %s)))",
	"fp:32to64": "(fp.to_ieee_bv ((_ to_fp 11 53) RNE ((_ to_fp 8 24) %s)))",
}

// defStr renders the definition body of a non-leaf term, referring to children by name.
func (t *Term) defStr() string {
	a := make([]string, len(t.Args))
	for i, x := range t.Args {
		a[i] = x.leafStr()
	}
	switch t.Op {
	case OExtract:
		return fmt.Sprintf("((_ extract %d %d) %s)", t.Hi, t.Lo, a[0])
	case OSExt:
		return fmt.Sprintf("((_ sign_extend %d) %s)", t.W-t.Args[0].W, a[0])
	case OApp:
		if f, ok := fpRender[t.Name]; ok {
			ia := make([]interface{}, len(a))
			for i := range a {
				ia[i] = a[i]
			}
			return fmt.Sprintf(f, ia...)
		}
		if len(a) == 0 {
			return t.Name
		}
		return "(" + t.Name + " " + strings.Join(a, " ") + ")"
	}
	return "(" + opName[t.Op] + " " + strings.Join(a, " ") + ")"
}

// String renders a term fully inline (debugging; exponential on shared DAGs).
func (t *Term) String() string {
	if t.Op == OConst || t.Op == OVar {
		if t.Op == OConst && t.W > 0 {
			return fmt.Sprintf("#x%x:%d", t.Val, t.W)
		}
		return t.leafStr()
	}
	a := make([]string, len(t.Args))
	for i, x := range t.Args {
		a[i] = x.String()
	}
	switch t.Op {
	case OExtract:
		return fmt.Sprintf("%s[%d:%d]", a[0], t.Hi, t.Lo)
	case OSExt:
		return fmt.Sprintf("sext%d(%s)", t.W, a[0])
	case OApp:
		return t.Name + "(" + strings.Join(a, ",") + ")"
	}
	return "(" + opName[t.Op] + " " + strings.Join(a, " ") + ")"
}
