package rtsp

import (
	"bufio"

	"github.com/q191201771/lal/pkg/base"
	"github.com/q191201771/lal/pkg/rtprtcp"
	"github.com/q191201771/lal/pkg/sdp"

	vkit "github.com/q191201771/lal/pkg/zzvkit"
	vrt "github.com/q191201771/lal/pkg/zzvrt"
)

// VerifC13Interleaved: arbitrary bytes on an RTSP command connection through the interleaved-frame reader.
func VerifC13Interleaved() {
	c := &vkit.Conn{In: vrt.Bytes("in", vrt.Param("n"))}
	r := bufio.NewReaderSize(c, 64)
	for i := 0; i < 2; i++ {
		is, _, _, err := readInterleaved(r)
		if err != nil || !is {
			break
		}
	}
	vrt.Cover("end")
}

type c13Obs struct{ sdps, rtps, avs int }

func (o *c13Obs) OnSdp(sdpCtx sdp.LogicContext)     { o.sdps++ }
func (o *c13Obs) OnRtpPacket(pkt rtprtcp.RtpPacket) { o.rtps++ }
func (o *c13Obs) OnAvPacket(pkt base.AvPacket)      { o.avs++ }

type c13Writer struct{ n int }

func (w *c13Writer) WriteInterleavedPacket(packet []byte, channel int) error { w.n++; return nil }

const c13SdpAvcAac = "v=0\r\no=- 0 0 IN IP4 127.0.0.1\r\ns=No Name\r\nc=IN IP4 127.0.0.1\r\nt=0 0\r\na=tool:libavformat 57.83.100\r\n" +
	"m=video 0 RTP/AVP 96\r\na=rtpmap:96 H264/90000\r\na=fmtp:96 packetization-mode=1; sprop-parameter-sets=Z2QAIKzZQMApsBEAAAMAAQAAAwAyDxgxlg==,aOvssiw=; profile-level-id=640020\r\na=control:streamid=0\r\n" +
	"m=audio 0 RTP/AVP 97\r\nb=AS:128\r\na=rtpmap:97 MPEG4-GENERIC/44100/2\r\na=fmtp:97 profile-level-id=1;mode=AAC-hbr;sizelength=13;indexlength=3;indexdeltalength=3; config=1210\r\na=control:streamid=1\r\n"

const c13SdpHevcPcm = "v=0\r\no=- 0 0 IN IP4 127.0.0.1\r\ns=No Name\r\nc=IN IP4 127.0.0.1\r\nt=0 0\r\n" +
	"m=video 0 RTP/AVP 98\r\na=rtpmap:98 H265/90000\r\na=fmtp:98 sprop-vps=QAEMAf//AWAAAAMAkAAAAwAAAwA/ugJA; sprop-sps=QgEBAWAAAAMAkAAAAwAAAwA/oAUCAXHy5bpKTC8BAQAAAwABAAADAA8I; sprop-pps=RAHAc8GJ\r\na=control:streamid=0\r\n" +
	"m=audio 0 RTP/AVP 8\r\na=rtpmap:8 PCMA/8000\r\na=control:streamid=1\r\n"

// further descriptions a peer may send: each is parsed by lal's own SDP parser (concretely) before the session is set up
var c13SdpVariants = []string{
	// 2: AAC announced without fmtp (no config), video of an unknown codec
	"v=0\r\nm=video 0 RTP/AVP 96\r\na=rtpmap:96 VP8/90000\r\na=control:streamid=0\r\nm=audio 0 RTP/AVP 97\r\na=rtpmap:97 MPEG4-GENERIC/44100/2\r\na=control:streamid=1\r\n",
	// 3: clock rates of zero
	"v=0\r\nm=video 0 RTP/AVP 96\r\na=rtpmap:96 H264/0\r\na=fmtp:96 packetization-mode=1\r\na=control:streamid=0\r\nm=audio 0 RTP/AVP 0\r\na=rtpmap:0 PCMU/0\r\na=control:streamid=1\r\n",
	// 4: static payload types without rtpmap (PCMU by m= line), MP2 audio
	"v=0\r\nm=audio 0 RTP/AVP 0\r\na=control:streamid=1\r\nm=video 0 RTP/AVP 96\r\na=control:streamid=0\r\n",
	"v=0\r\nm=audio 0 RTP/AVP 14\r\na=control:streamid=1\r\nm=video 0 RTP/AVP 96\r\na=rtpmap:96 H265/90000\r\na=control:streamid=0\r\n",
	// 6: Opus, H.264 with empty parameter sets and a negative clock rate on audio
	"v=0\r\nm=video 0 RTP/AVP 96\r\na=rtpmap:96 H264/90000\r\na=fmtp:96 sprop-parameter-sets=,\r\na=control:streamid=0\r\nm=audio 0 RTP/AVP 111\r\na=rtpmap:111 opus/-48000/2\r\na=control:streamid=1\r\n",
	// 7: AAC with a config of zeros and a huge clock rate; same control value for both tracks
	"v=0\r\nm=audio 0 RTP/AVP 97\r\na=rtpmap:97 MPEG4-GENERIC/2147483647/2\r\na=fmtp:97 config=0000\r\na=control:streamid=0\r\nm=video 0 RTP/AVP 96\r\na=rtpmap:96 H264/1\r\na=control:streamid=0\r\n",
}

// VerifC13Session: RTP / RTCP datagrams and interleaved frames into an RTSP ingest session
// whose SDP is a concrete well-formed description (AVC+AAC or HEVC+PCMA).
func VerifC13Session() {
	text := c13SdpAvcAac
	if v := vrt.Param("sdp"); v == 1 {
		text = c13SdpHevcPcm
	} else if v >= 2 {
		text = c13SdpVariants[v-2]
	}
	ctx, err := sdp.ParseSdp2LogicContext([]byte(text))
	vrt.Assert(err == nil, "harness SDP parses")
	obs := &c13Obs{}
	s := NewBaseInSessionWithObserver(base.SessionTypeRtspPub, &c13Writer{}, obs)
	s.InitWithSdp(ctx)
	_ = s.SetupWithChannel("rtsp://h/live/s/streamid=0", 0, 1)
	_ = s.SetupWithChannel("rtsp://h/live/s/streamid=1", 2, 3)
	for k := 0; k < vrt.Param("pkts"); k++ {
		b := vrt.Bytes("pkt", vrt.Param("n"))
		switch vrt.Param("kind") {
		case 0:
			_ = s.handleRtpPacket(b)
		case 1:
			_ = s.handleRtcpPacket(b, nil)
		case 2:
			s.HandleInterleavedPacket(b, int(vrt.U8("channel")))
		}
	}
	vrt.Cover("end")
}
