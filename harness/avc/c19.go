package avc

import (
	vrt "github.com/q191201771/lal/pkg/zzvrt"
)

// a valid High-profile 1280x720 SPS (concrete so that ParseSps does not fork on Exp-Golomb codes)
var c19Sps = []byte{0x67, 0x64, 0x00, 0x1f, 0xac, 0xd9, 0x40, 0x50, 0x05, 0xbb, 0x01, 0x10, 0x00, 0x00, 0x03, 0x00, 0x10, 0x00, 0x00, 0x03, 0x03, 0xc0, 0xf1, 0x83, 0x19, 0x60}

func c19eq(a, b []byte) bool {
	if len(a) != len(b) {
		return false
	}
	for i := range a {
		if a[i] != b[i] {
			return false
		}
	}
	return true
}

// VerifC19AvcSeqHeader: SPS/PPS -> sequence header -> SPS/PPS -> Annex-B, byte for byte.
// The SPS is the concrete valid SPS followed by stail symbolic bytes (mode 0) or slen fully symbolic
// bytes (mode 1); the PPS is plen symbolic bytes.
func VerifC19AvcSeqHeader() {
	var sps []byte
	if vrt.Param("mode") == 0 {
		sps = append(append([]byte{}, c19Sps...), vrt.Bytes("spstail", vrt.Param("stail"))...)
	} else {
		sps = vrt.Bytes("sps", vrt.Param("stail"))
	}
	pps := vrt.Bytes("pps", vrt.Param("plen"))
	sh, err := BuildSeqHeaderFromSpsPps(sps, pps)
	if err != nil {
		// only an SPS whose first 5 bytes cannot be parsed may be refused
		vrt.Assert(vrt.Param("mode") == 1, "valid SPS accepted")
		vrt.Cover("end")
		return
	}
	s1, p1, err := ParseSpsPpsFromSeqHeader(sh)
	vrt.Assert(err == nil, "ParseSpsPpsFromSeqHeader ok")
	vrt.Assert(c19eq(s1, sps) && c19eq(p1, pps), "sets recovered byte for byte")
	s2, p2, err := ParseSpsPpsFromSeqHeaderWithoutMalloc(sh)
	vrt.Assert(err == nil && c19eq(s2, sps) && c19eq(p2, pps), "WithoutMalloc variant agrees")
	sl, pl, err := parseSpsPpsListFromSeqHeaderWithoutMalloc(sh)
	vrt.Assert(err == nil && len(sl) == 1 && len(pl) == 1, "list variant: one SPS one PPS")
	if len(sl) == 1 && len(pl) == 1 {
		vrt.Assert(c19eq(sl[0], sps) && c19eq(pl[0], pps), "list variant: same bytes")
	}
	ab, err := SpsPpsSeqHeader2Annexb(sh)
	want := append(append(append(append([]byte{}, 0, 0, 0, 1), sps...), 0, 0, 0, 1), pps...)
	vrt.Assert(err == nil && c19eq(ab, want), "Annex-B form = start code + set, in order")
	vrt.Assert(c19eq(BuildSpsPps2Annexb(sps, pps), want), "BuildSpsPps2Annexb agrees")
	vrt.Cover("end")
}

// c19ValidNal assumes the Annex-B validity predicate: no 00 00 0x (x<=3) inside and no trailing 00.
func c19ValidNal(n []byte) {
	vrt.Assume(n[len(n)-1] != 0)
	for i := 0; i+2 < len(n); i++ {
		vrt.Assume(!vrt.And(vrt.And(n[i] == 0, n[i+1] == 0), n[i+2] <= 3))
	}
}

// VerifC19Framing: NAL list <-> Annex-B <-> AVCC.
func VerifC19Framing() {
	k := vrt.Param("nals")
	nl := vrt.Param("nlen")
	var nals [][]byte
	var annexb, avcc, annexb4 []byte
	for i := 0; i < k; i++ {
		n := vrt.Bytes("nal", nl)
		c19ValidNal(n)
		nals = append(nals, n)
		if i > 0 {
			for z := 0; z < vrt.Param("mz"); z++ {
				annexb = append(annexb, 0) // trailing_zero_8bits after the previous unit
			}
		}
		if vrt.Bool("sc4") {
			annexb = append(annexb, 0)
		}
		annexb = append(annexb, 0, 0, 1)
		annexb = append(annexb, n...)
		annexb4 = append(append(annexb4, 0, 0, 0, 1), n...)
		avcc = append(append(avcc, 0, 0, 0, byte(nl)), n...)
	}
	for i := 0; i < vrt.Param("tz"); i++ {
		annexb = append(annexb, 0)
	}
	if vrt.Param("tz") > 0 {
		// trailing zero bytes after the last unit are legal stream syntax; lal keeps them in the last unit:
		// the claim here is no loss / no reordering of the leading units
	}
	got, err := SplitNaluAnnexb(annexb)
	vrt.Assert(err == nil, "SplitNaluAnnexb ok")
	vrt.Assert(len(got) == k, "same number of units")
	for i := 0; i < k && i < len(got); i++ {
		if i == k-1 && vrt.Param("tz") > 0 {
			vrt.Assert(len(got[i]) >= nl && c19eq(got[i][:nl], nals[i]), "last unit preserved (trailing zeros appended)")
		} else {
			vrt.Assert(c19eq(got[i], nals[i]), "unit preserved (annexb split)")
		}
	}
	if vrt.Param("tz") == 0 {
		a2, err := Annexb2Avcc(annexb)
		vrt.Assert(err == nil && c19eq(a2, avcc), "Annexb2Avcc = length-prefixed units")
	}
	b2, err := Avcc2Annexb(avcc)
	vrt.Assert(err == nil && c19eq(b2, annexb4), "Avcc2Annexb = 4-byte start code + unit")
	got2, err := SplitNaluAvcc(avcc)
	vrt.Assert(err == nil && len(got2) == k, "SplitNaluAvcc count")
	for i := 0; i < k && i < len(got2); i++ {
		vrt.Assert(c19eq(got2[i], nals[i]), "unit preserved (avcc split)")
	}
	vrt.Cover("end")
}

// VerifC19SpsArbitrary: ParseSps / TryParseSeqHeader on arbitrary bytes never panic.
func VerifC19SpsArbitrary() {
	b := vrt.Bytes("sps", vrt.Param("n"))
	var ctx Context
	_ = ParseSps(b, &ctx)
	vrt.Cover("end")
}

// ---- H.264 SPS encoder model (ITU-T H.264 7.3.2.1.1) for the dimension claim ----

type c19bw struct {
	b    []byte
	nbit int
}

func (w *c19bw) bit(v uint8) {
	if w.nbit%8 == 0 {
		w.b = append(w.b, 0)
	}
	w.b[len(w.b)-1] |= (v & 1) << uint(7-w.nbit%8)
	w.nbit++
}

func (w *c19bw) bits(v uint32, n int) {
	for i := n - 1; i >= 0; i-- {
		w.bit(uint8(v >> uint(i) & 1))
	}
}

// ue writes an Exp-Golomb code with a concrete prefix length nz (number of leading zeros) and
// nz symbolic suffix bits; returns the encoded value.
func (w *c19bw) ue(tag string, nz int) uint32 {
	for i := 0; i < nz; i++ {
		w.bit(0)
	}
	w.bit(1)
	var suf uint32
	if nz > 0 {
		suf = vrt.U32(tag) & (1<<uint(nz) - 1)
		w.bits(suf, nz)
	}
	return 1<<uint(nz) - 1 + suf
}

// VerifC19SpsDims: ParseSps reports the dimensions the SPS encodes (7.4.2.1.1 equations 7-13..7-21).
func VerifC19SpsDims() {
	w := &c19bw{}
	w.bits(0x67, 8)
	profile := uint32(vrt.Param("profile"))
	w.bits(profile, 8)
	w.bits(0, 8)
	w.bits(31, 8)
	w.ue("spsid", 0)
	chroma := uint32(1)
	sepPlane := uint8(0)
	switch profile {
	case 100, 110, 122, 244, 44, 83, 86, 118, 128:
		chroma = uint32(vrt.Param("chroma"))
		switch chroma { // ue(chroma_format_idc)
		case 0:
			w.bits(1, 1)
		case 1:
			w.bits(2, 3)
		case 2:
			w.bits(3, 3)
		case 3:
			w.bits(4, 5)
			sepPlane = uint8(vrt.Param("sep"))
			w.bit(sepPlane)
		}
		w.ue("bdl", 0)
		w.ue("bdc", 0)
		w.bit(0) // qpprime
		w.bit(0) // no scaling matrix
	}
	w.ue("l2mfn", 0)
	w.ue("poc", 0)   // pic_order_cnt_type 0
	w.ue("l2poc", 1) // log2_max_pic_order_cnt_lsb_minus4
	w.ue("refs", 1)
	w.bit(0)
	wmbs := w.ue("w", vrt.Param("wz"))
	hmu := w.ue("h", vrt.Param("hz"))
	fmo := uint8(vrt.Param("fmo"))
	w.bit(fmo)
	if fmo == 0 {
		w.bit(vrt.U8("mbaff") & 1)
	}
	w.bit(1) // direct_8x8
	crop := vrt.Param("crop")
	var cl, cr, ct, cb uint32
	if crop > 0 {
		w.bit(1)
		cl = w.ue("cl", crop-1)
		cr = w.ue("cr", crop-1)
		ct = w.ue("ct", crop-1)
		cb = w.ue("cb", crop-1)
	} else {
		w.bit(0)
	}
	w.bit(0) // no VUI
	w.bit(1) // rbsp stop bit
	for w.nbit%8 != 0 {
		w.bit(0)
	}
	// specification formula
	chromaArrayType := chroma
	if sepPlane == 1 {
		chromaArrayType = 0
	}
	subW, subH := uint32(1), uint32(1)
	switch chromaArrayType {
	case 1:
		subW, subH = 2, 2
	case 2:
		subW, subH = 2, 1
	}
	cropUnitX := subW
	cropUnitY := subH * (2 - uint32(fmo))
	if chromaArrayType == 0 {
		cropUnitX, cropUnitY = 1, 2-uint32(fmo)
	}
	width := (wmbs+1)*16 - cropUnitX*(cl+cr)
	height := (2-uint32(fmo))*(hmu+1)*16 - cropUnitY*(ct+cb)
	// the encoder model only produces crops smaller than the picture
	vrt.Assume(cropUnitX*(cl+cr) < (wmbs+1)*16 && cropUnitY*(ct+cb) < (2-uint32(fmo))*(hmu+1)*16)

	var ctx Context
	err := ParseSps(w.b, &ctx)
	vrt.Assert(err == nil, "ParseSps accepts the SPS")
	vrt.Assert(ctx.Profile == uint8(profile) && ctx.Level == 31, "profile and level")
	vrt.Assert(ctx.Width == width, "width equals the SPS formula")
	vrt.Assert(ctx.Height == height, "height equals the SPS formula")
	vrt.Cover("end")
}
