package rtsp

import (
	"strconv"

	"github.com/q191201771/lal/pkg/base"
	vkit "github.com/q191201771/lal/pkg/zzvkit"
	vrt "github.com/q191201771/lal/pkg/zzvrt"
)

// c03RtspObs plays logic.ServerManager for one RTSP server: it admits a publisher iff the stream name has
// no publisher, answers DESCRIBE with a description, and counts what it is told.
type c03RtspObs struct {
	pubs       map[string]*PubSession // stream name -> accepted publisher
	acceptedP  []*PubSession
	refusedP   []*PubSession
	describedS []*SubSession
	delP       map[*PubSession]int
	delS       map[*SubSession]int
	connNew    int
	connDel    int
}

func (o *c03RtspObs) OnNewRtspSessionConnect(session *ServerCommandSession) { o.connNew++ }
func (o *c03RtspObs) OnDelRtspSession(session *ServerCommandSession)        { o.connDel++ }
func (o *c03RtspObs) OnNewRtspPubSession(session *PubSession) error {
	if o.pubs[session.StreamName()] != nil {
		o.refusedP = append(o.refusedP, session)
		return base.ErrDupInStream
	}
	o.pubs[session.StreamName()] = session
	o.acceptedP = append(o.acceptedP, session)
	return nil
}
func (o *c03RtspObs) OnDelRtspPubSession(session *PubSession) {
	o.delP[session]++
	if o.pubs[session.StreamName()] == session {
		delete(o.pubs, session.StreamName())
	}
}
func (o *c03RtspObs) OnNewRtspSubSessionDescribe(session *SubSession) (ok bool, sdp []byte) {
	o.describedS = append(o.describedS, session)
	return true, []byte(c13SdpAvcAac)
}
func (o *c03RtspObs) OnNewRtspSubSessionPlay(session *SubSession) error { return nil }
func (o *c03RtspObs) OnDelRtspSubSession(session *SubSession)           { o.delS[session]++ }

func c03Req(method, stream string, cseq int, body string) string {
	s := method + " rtsp://h/live/" + stream + " RTSP/1.0\r\nCSeq: " + strconv.Itoa(cseq) + "\r\n"
	if body != "" {
		s += "Content-Type: application/sdp\r\nContent-Length: " + strconv.Itoa(len(body)) + "\r\n"
	}
	return s + "\r\n" + body
}

// VerifC03RtspConn: one RTSP connection carrying a sequence of k requests chosen by the solver among
// OPTIONS, ANNOUNCE a, ANNOUNCE b, DESCRIBE a, DESCRIBE b, RECORD, PLAY, TEARDOWN (well-formed requests in
// an order no well-behaved client would use), then the connection ends. Every publisher the server admitted
// and every subscriber it described is reported gone exactly once; nothing is reported gone twice.
func VerifC03RtspConn() {
	k := vrt.Param("k")
	obs := &c03RtspObs{pubs: map[string]*PubSession{}, delP: map[*PubSession]int{}, delS: map[*SubSession]int{}}
	if vrt.Param("busy") == 1 {
		obs.pubs["a"] = &PubSession{} // another connection already publishes stream a
	}
	s := NewServer("127.0.0.1:0", obs, ServerAuthConfig{})
	var in []byte
	for i := 0; i < k; i++ {
		var r string
		switch vrt.Pick(vrt.Range("req", 0, 7)) {
		case 0:
			r = c03Req("OPTIONS", "a", i+1, "")
		case 1:
			r = c03Req("ANNOUNCE", "a", i+1, c13SdpAvcAac)
		case 2:
			r = c03Req("ANNOUNCE", "b", i+1, c13SdpAvcAac)
		case 3:
			r = c03Req("DESCRIBE", "a", i+1, "")
		case 4:
			r = c03Req("DESCRIBE", "b", i+1, "")
		case 5:
			r = c03Req("RECORD", "a", i+1, "")
		case 6:
			r = c03Req("PLAY", "a", i+1, "")
		case 7:
			r = c03Req("TEARDOWN", "a", i+1, "")
		}
		in = append(in, r...)
	}
	conn := &vkit.Conn{In: in}
	s.handleTcpConnect(conn)
	vrt.Assert(obs.connNew == 1 && obs.connDel == 1, "the connection is reported once and gone once")
	for _, p := range obs.acceptedP {
		vrt.Assert(obs.delP[p] == 1, "every admitted publisher is reported gone exactly once when its connection ends")
	}
	for _, p := range obs.refusedP {
		vrt.Assert(obs.delP[p] == 0, "a refused publisher is never reported gone (it was never reported as started)")
	}
	for _, q := range obs.describedS {
		vrt.Assert(obs.delS[q] == 1, "every described subscriber is reported gone exactly once when its connection ends")
	}
	for _, n := range obs.delP {
		vrt.Assert(n <= 1, "no publisher is reported gone twice")
	}
	for _, n := range obs.delS {
		vrt.Assert(n <= 1, "no subscriber is reported gone twice")
	}
	vrt.Cover("end")
}
