package logic

import (
	"github.com/q191201771/lal/pkg/base"
	"github.com/q191201771/lal/pkg/rtmp"
	"github.com/q191201771/lal/pkg/rtsp"
	vrt "github.com/q191201771/lal/pkg/zzvrt"
)

// c03Input is one candidate input session of any kind.
type c03Input struct {
	kind     int // 0 rtmp pub, 1 rtsp pub, 2 customize pub, 3 rtmp pull, 4 gb28181 rtp pub
	rtmp     *rtmp.ServerSession
	rtsp     *rtsp.PubSession
	cust     ICustomizePubSessionContext
	pull     *rtmp.PullSession
	psid     string
	accepted bool
	gone     bool
}

// VerifC03OneInput: histories of arrivals and departures of inputs of every kind. At every step at
// most one input is accepted, refused arrivals report failure and nothing a refused or foreign
// session does changes the accepted input.
func VerifC03OneInput() {
	steps := vrt.Param("steps")
	g, obs := kitGroup(kitConfig())
	var ins []*c03Input
	cur := -1 // index of the accepted input
	pullGone := 0
	for s := 0; s < steps; s++ {
		op := vrt.Pick(vrt.Range("op", 0, 5))
		switch {
		case op <= 4: // arrival of a new input of kind op
			in := &c03Input{kind: op}
			var err error
			switch op {
			case 0:
				in.rtmp, _ = kitRtmpSession()
				err = g.AddRtmpPubSession(in.rtmp)
			case 1:
				in.rtsp = kitRtspPubSession()
				err = g.AddRtspPubSession(in.rtsp)
			case 2:
				in.cust, err = g.AddCustomizePubSession("s1")
			case 3:
				in.pull = rtmp.NewPullSession()
				err = g.AddRtmpPullSession(in.pull)
			case 4:
				if vrt.Param("gb") == 0 {
					vrt.Assume(false)
				}
				ret := g.StartRtpPub(base.ApiCtrlStartRtpPubReq{StreamName: "s1", Port: 0})
				if ret.ErrorCode != base.ErrorCodeSucc {
					err = base.ErrDupInStream
				}
				in.psid = ret.Data.SessionId
			}
			if cur >= 0 {
				vrt.Assert(err != nil, "an input arriving while another is accepted is refused")
			} else {
				vrt.Assert(err == nil, "an input arriving at an idle stream is accepted")
			}
			if err == nil && cur < 0 {
				in.accepted = true
				cur = len(ins)
			}
			ins = append(ins, in)
		default: // departure of any earlier session (accepted, refused or already gone)
			if len(ins) == 0 {
				continue
			}
			k := vrt.Pick(vrt.Range("who", 0, len(ins)-1))
			in := ins[k]
			if in.kind == 4 {
				continue // the GB28181 session object is owned by the group; it leaves through the group only
			}
			if in.gone {
				continue // a session leaves once: its own goroutine reports the end of the connection exactly once
			}
			if in.kind == 3 {
				pullGone++
			}
			switch in.kind {
			case 0:
				g.DelRtmpPubSession(in.rtmp)
			case 1:
				g.DelRtspPubSession(in.rtsp)
			case 2:
				if in.cust != nil {
					g.DelCustomizePubSession(in.cust)
				}
			case 3:
				g.DelRtmpPullSession(in.pull)
			}
			in.gone = true
			if k == cur {
				cur = -1
			}
		}
		// invariant after every step
		vrt.Assert(g.HasInSession() == (cur >= 0), "the stream has an input iff one was accepted and has not left")
		n := 0
		if g.rtmpPubSession != nil {
			n++
		}
		if g.rtspPubSession != nil {
			n++
		}
		if g.customizePubSession != nil {
			n++
		}
		if g.psPubSession != nil {
			n++
		}
		if g.pullProxy.rtmpSession != nil || g.pullProxy.rtspSession != nil {
			n++
		}
		vrt.Assert(n <= 1, "at most one accepted input")
		if cur >= 0 {
			in := ins[cur]
			switch in.kind {
			case 0:
				vrt.Assert(g.rtmpPubSession == in.rtmp, "the accepted RTMP publisher is still the input")
			case 1:
				vrt.Assert(g.rtspPubSession == in.rtsp, "the accepted RTSP publisher is still the input")
			case 2:
				vrt.Assert(g.customizePubSession != nil, "the accepted customize publisher is still the input")
			case 3:
				vrt.Assert(g.pullProxy.rtmpSession == in.pull, "the accepted pull is still the input")
			case 4:
				vrt.Assert(g.psPubSession != nil, "the accepted GB28181 publisher is still the input")
			}
		}
		pullAccepted := 0
		for _, in := range ins {
			if in.kind == 3 && in.accepted {
				pullAccepted++
			}
		}
		vrt.Assert(obs.pullStart == pullAccepted, "a relay pull reports a start only if it attached")
		vrt.Assert(obs.pullStop == pullGone, "a relay-pull attempt reports exactly one stop")
	}
	vrt.Cover("end")
}
