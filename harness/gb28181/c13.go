package gb28181

import (
	"github.com/q191201771/lal/pkg/base"
	vrt "github.com/q191201771/lal/pkg/zzvrt"
)

// VerifC13Ps: GB28181 PS over RTP. pkts RTP packets with a well-formed 12-byte header (symbolic
// sequence number / timestamp) and a body = optional PS start code prefix + n arbitrary bytes.
func VerifC13Ps() {
	u := NewPsUnpacker().WithOnAvPacket(func(packet *base.AvPacket) {})
	for k := 0; k < vrt.Param("pkts"); k++ {
		var body []byte
		switch vrt.Param("pre") {
		case 1:
			body = []byte{0, 0, 1, 0xba}
		case 2:
			body = []byte{0, 0, 1, 0xbb}
		case 3:
			body = []byte{0, 0, 1, 0xbc}
		case 4:
			body = []byte{0, 0, 1, 0xe0}
		case 5:
			body = []byte{0, 0, 1, 0xc0}
		case 6:
			body = []byte{0, 0, 1, 0xbd}
		}
		body = append(body, vrt.Bytes("body", vrt.Param("n"))...)
		if vrt.Param("raw") == 1 {
			_ = u.FeedRtpBody(body, vrt.U32("ts"))
			continue
		}
		seq := vrt.U16("seq")
		ts := vrt.U32("ts")
		hdr := []byte{0x80, 96, byte(seq >> 8), byte(seq), byte(ts >> 24), byte(ts >> 16), byte(ts >> 8), byte(ts), 0, 0, 0, 1}
		_ = u.FeedRtpPacket(append(hdr, body...))
	}
	vrt.Cover("end")
}

// VerifC13PsDatagram: a wholly arbitrary datagram on the GB28181 port.
func VerifC13PsDatagram() {
	u := NewPsUnpacker().WithOnAvPacket(func(packet *base.AvPacket) {})
	_ = u.FeedRtpPacket(vrt.Bytes("dgram", vrt.Param("n")))
	vrt.Cover("end")
}
