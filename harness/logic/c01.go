package logic

import (
	"github.com/q191201771/lal/pkg/base"
	"github.com/q191201771/lal/pkg/rtmp"
	vkit "github.com/q191201771/lal/pkg/zzvkit"
	vrt "github.com/q191201771/lal/pkg/zzvrt"
)

// ---- reference FLV tag parser (FLV spec v10 Annex E.4) ----

type c01Tag struct {
	typ  uint8
	ts   uint32
	body []byte
}

func c01ParseFlvTags(b []byte) ([]c01Tag, bool) {
	var out []c01Tag
	for len(b) > 0 {
		if len(b) < 15 {
			return out, false
		}
		n := int(b[1])<<16 | int(b[2])<<8 | int(b[3])
		if len(b) < 15+n || b[8] != 0 || b[9] != 0 || b[10] != 0 {
			return out, false
		}
		prev := int(b[11+n])<<24 | int(b[12+n])<<16 | int(b[13+n])<<8 | int(b[14+n])
		if prev != 11+n {
			return out, false
		}
		out = append(out, c01Tag{typ: b[0], ts: uint32(b[7])<<24 | uint32(b[4])<<16 | uint32(b[5])<<8 | uint32(b[6]), body: b[11 : 11+n]})
		b = b[15+n:]
	}
	return out, true
}

// message kinds of the harness's stream model
const (
	kMeta = iota
	kVsh
	kAsh
	kVkey
	kVinter
	kAraw
)

func c01Make(kind int, tag string) base.RtmpMsg {
	ts := vrt.U32(tag + "ts")
	if vrt.Param("bigts") == 0 {
		vrt.Assume(ts < 0xFFFFFF) // extended-timestamp forms are decided by C08; avoids 2^n path classes here
	}
	tail := vrt.Bytes(tag, 2)
	var p []byte
	typ := base.RtmpTypeIdVideo
	switch kind {
	case kMeta:
		typ = base.RtmpTypeIdMetadata
		p = []byte{2, 0, 10, 'o', 'n', 'M', 'e', 't', 'a', 'D', 'a', 't', 'a', 5}
	case kVsh:
		p = []byte{0x17, 0, 0, 0, 0}
	case kAsh:
		typ = base.RtmpTypeIdAudio
		p = []byte{0xaf, 0}
	case kVkey:
		p = []byte{0x17, 1, 0, 0, 0}
	case kVinter:
		p = []byte{0x27, 1, 0, 0, 0}
	case kAraw:
		typ = base.RtmpTypeIdAudio
		p = []byte{0xaf, 1}
	}
	p = append(p, tail...)
	return kitMsg(typ, ts, p)
}

func c01Eq(a, b []byte) bool {
	if len(a) != len(b) {
		return false
	}
	for i := range a {
		if a[i] != b[i] {
			return false
		}
	}
	return true
}

func c01IsFrame(kind int) bool { return kind == kVkey || kind == kVinter || kind == kAraw }

type c01Recv struct {
	typ     uint8
	ts      uint32
	payload []byte
}

// c01Expect is the specification model of what a consumer joining before message index join receives
// (indices into the published list): prologue, cached GOPs, then the live run.
// c01GopCap is the configured single_gop_max_frame_num of the instance (0 = no cap). lal applies it as "a GOP
// holds its key frame plus at most cap further messages"; the model follows that reading of "cut at the cap".
var c01GopCap = 0

func c01Expect(kinds []int, join int, gopNum int, pub []base.RtmpMsg) []int {
	meta, vsh, ash := -1, -1, -1
	hasVideo := false
	var gops [][]int
	for i := 0; i < join; i++ {
		switch kinds[i] {
		case kMeta:
			meta = i
		case kVsh:
			if vsh >= 0 && !c01Eq(pub[vsh].Payload, pub[i].Payload) {
				gops = nil // frames cached under another sequence header are not replayed
			}
			vsh = i
			hasVideo = true
		case kAsh:
			ash = i
		case kVkey:
			if gopNum > 0 {
				gops = append(gops, []int{i})
				if len(gops) > gopNum {
					gops = gops[1:]
				}
			}
		default:
			if gopNum > 0 && len(gops) > 0 {
				if c01GopCap == 0 || len(gops[len(gops)-1]) <= c01GopCap {
					gops[len(gops)-1] = append(gops[len(gops)-1], i)
				}
			}
		}
	}
	var exp []int
	if join >= len(kinds) {
		return exp // nothing is published after the join: nothing to receive yet
	}
	for _, h := range []int{meta, vsh, ash} {
		if h >= 0 {
			exp = append(exp, h)
		}
	}
	for _, g := range gops {
		exp = append(exp, g...)
	}
	wait := hasVideo && len(gops) == 0
	for i := join; i < len(kinds); i++ {
		if wait {
			if kinds[i] == kVkey {
				wait = false
			} else if c01IsFrame(kinds[i]) {
				continue // frames are withheld until the first key frame; metadata and sequence headers are not
			}
		}
		exp = append(exp, i)
	}
	return exp
}

// c01Check (C01) compares a consumer's decoded log with the specification model, message by message,
// and checks that the frames form one contiguous run.
func c01Check(who string, got []c01Recv, pub []base.RtmpMsg, kinds []int, joinAt int, gopNum int) {
	exp := c01Expect(kinds, joinAt, gopNum, pub)
	vrt.Assert(len(got) == len(exp), who+": number of messages received equals the model (nothing duplicated, nothing skipped)")
	if len(got) != len(exp) {
		return
	}
	for i, e := range exp {
		vrt.Assert(c01Same(got[i], pub[e]), who+": message equals the published message: type, millisecond timestamp, payload bytes")
	}
	var pf, gf []int
	for j := range pub {
		if c01IsFrame(kinds[j]) {
			pf = append(pf, j)
		}
	}
	for _, e := range exp {
		if c01IsFrame(kinds[e]) {
			gf = append(gf, e)
		}
	}
	a := len(pf) - len(gf)
	vrt.Assert(a >= 0, who+": no frame duplicated")
	for i := 0; a >= 0 && i < len(gf); i++ {
		vrt.Assert(gf[i] == pf[a+i], who+": frames form one contiguous run ending with the last published frame")
	}
}

func c01Same(g c01Recv, p base.RtmpMsg) bool {
	same := vrt.And(g.typ == p.Header.MsgTypeId, g.ts == p.Header.TimestampAbs)
	same = vrt.And(same, len(g.payload) == len(p.Payload))
	for k := 0; k < len(p.Payload) && k < len(g.payload); k++ {
		same = vrt.And(same, g.payload[k] == p.Payload[k])
	}
	return same
}

// c01KindOf classifies a received message by its type id and first payload bytes (FLV/RTMP tag layout).
func c01KindOf(g c01Recv) int {
	switch g.typ {
	case base.RtmpTypeIdMetadata:
		return kMeta
	case base.RtmpTypeIdAudio:
		if len(g.payload) >= 2 && g.payload[0]>>4 == 10 && g.payload[1] == 0 {
			return kAsh
		}
		return kAraw
	}
	if len(g.payload) >= 2 && g.payload[0] == 0x17 && g.payload[1] == 0 {
		return kVsh
	}
	if len(g.payload) >= 1 && g.payload[0]>>4 == 1 {
		return kVkey
	}
	return kVinter
}

// c02Check (C02) looks only at the consumer's decoded log: the first video frame is a key frame, and
// every frame is preceded in the log by a sequence header with the content of the one in force when
// the frame was published.
func c02Check(who string, got []c01Recv, pub []base.RtmpMsg, kinds []int, joinAt int, gopNum int) {
	gk := make([]int, len(got))
	for i := range got {
		gk[i] = c01KindOf(got[i])
	}
	// GOP replay clause: the frames received are exactly the most recent cached GOPs (at most gopNum, oldest
	// first, the newest possibly incomplete) followed by the live frames, with nothing missing in between
	{
		var ef, rf []int
		for _, e := range c01Expect(kinds, joinAt, gopNum, pub) {
			if c01IsFrame(kinds[e]) {
				ef = append(ef, e)
			}
		}
		for i := range got {
			if c01IsFrame(gk[i]) {
				rf = append(rf, i)
			}
		}
		vrt.Assert(len(rf) == len(ef), who+": replayed frames are exactly the most recent cached GOPs, contiguous with the live frames")
		for q := 0; q < len(rf) && q < len(ef); q++ {
			vrt.Assert(c01Same(got[rf[q]], pub[ef[q]]), who+": replayed and live frames are the published frames, in order")
		}
	}
	for i := range got {
		if gk[i] == kVkey {
			break
		}
		vrt.Assert(gk[i] != kVinter, who+": the first video frame received is a key frame")
	}
	// map each received frame to its published index: frames are received in publication order, so the
	// k-th received frame from the end is the k-th published frame from the end
	var pf []int
	for j := range pub {
		if c01IsFrame(kinds[j]) {
			pf = append(pf, j)
		}
	}
	var gf []int
	for i := range got {
		if c01IsFrame(gk[i]) {
			gf = append(gf, i)
		}
	}
	if len(gf) > len(pf) {
		return // duplication is C01's finding
	}
	a := len(pf) - len(gf)
	for q, gi := range gf {
		e := pf[a+q]
		wantKind := kVsh
		if kinds[e] == kAraw {
			wantKind = kAsh
		}
		need := -1
		for j := 0; j < e; j++ {
			if kinds[j] == wantKind {
				need = j
			}
		}
		if need < 0 {
			continue
		}
		// the last header of that kind received before this frame must have the content of pub[need]
		last := -1
		for i := 0; i < gi; i++ {
			if gk[i] == wantKind {
				last = i
			}
		}
		vrt.Assert(last >= 0, who+": a sequence header precedes the frame")
		if last >= 0 {
			ok := vrt.And(len(got[last].payload) == len(pub[need].Payload), true)
			for k := 0; k < len(pub[need].Payload) && k < len(got[last].payload); k++ {
				ok = vrt.And(ok, got[last].payload[k] == pub[need].Payload[k])
			}
			vrt.Assert(ok, who+": each frame is preceded by a sequence header with the content of the one in force when it was published")
		}
	}
}

// VerifC01Relay: a publisher sends msgs messages (kinds given by pat, base 6); one RTMP subscriber and
// one HTTP-FLV subscriber join before a symbolic message index; each consumer's byte log is decoded by
// the reference RTMP chunk reader / FLV tag parser and compared with what was published.
func VerifC01Relay() {
	n := vrt.Param("msgs")
	pat := vrt.Param("pat")
	cfg := kitConfig()
	cfg.RtmpConfig.GopNum = vrt.Param("gop")
	cfg.HttpflvConfig.GopNum = vrt.Param("gop")
	cfg.RtmpConfig.MergeWriteSize = vrt.Param("merge")
	c01GopCap = vrt.Param("cap")
	cfg.RtmpConfig.SingleGopMaxFrameNum = c01GopCap
	cfg.HttpflvConfig.SingleGopMaxFrameNum = c01GopCap
	g, _ := kitGroup(cfg)
	pubSess, _ := kitRtmpSession()
	vrt.Assert(g.AddRtmpPubSession(pubSess) == nil, "publisher accepted")

	kinds := make([]int, n)
	pub := make([]base.RtmpMsg, n)
	for i := 0; i < n; i++ {
		kinds[i] = pat % 6
		pat /= 6
		pub[i] = c01Make(kinds[i], "m")
		if i == vrt.Param("big") {
			// one message much larger than the others (larger than the merge-write threshold on its own)
			pub[i].Payload = append(pub[i].Payload, vrt.Bytes("big", 60)...)
			pub[i].Header.MsgLen = uint32(len(pub[i].Payload))
		}
	}
	// conforming publisher: video frames follow a video sequence header, and an inter frame only follows a key frame of the same sequence header
	// (a stream that starts its video mid-GOP cannot be made decodable by any relay)
	keyed, hasVsh := false, false
	for i := 0; i < n; i++ {
		switch kinds[i] {
		case kVsh:
			keyed, hasVsh = false, true
		case kVkey:
			if !hasVsh {
				vrt.Cover("end")
				return
			}
			keyed = true
		case kVinter:
			if !keyed {
				vrt.Cover("end")
				return
			}
		}
	}
	jr := vrt.Pick(vrt.Range("joinRtmp", 0, n))
	jf := vrt.Pick(vrt.Range("joinFlv", 0, n))
	var rsub *rtmp.ServerSession
	var rconn, fconn *vkit.Conn
	jr2 := -1
	var rconn2 *vkit.Conn
	if vrt.Param("subs2") == 1 {
		jr2 = vrt.Pick(vrt.Range("joinRtmp2", 0, n))
	}
	for i := 0; i <= n; i++ {
		if i == jr {
			rsub, rconn = kitRtmpSession()
			g.AddRtmpSubSession(rsub)
		}
		if i == jr2 {
			s2, c2 := kitRtmpSession()
			rconn2 = c2
			g.AddRtmpSubSession(s2)
		}
		if i == jf {
			fs, c := kitFlvSub(false)
			fconn = c
			g.AddHttpflvSubSession(fs)
		}
		if i < n {
			g.OnReadRtmpAvMsg(pub[i])
		}
	}
	if g.rtmpMergeWriter != nil {
		g.rtmpMergeWriter.Flush()
	}

	// RTMP subscriber
	rd := &refChunkReader{chunkSize: rtmp.LocalChunkSize}
	vrt.Assert(rd.readAll(rconn.All()), "rtmp: log is a well-formed chunk stream")
	var got []c01Recv
	for _, m := range rd.out {
		got = append(got, c01Recv{typ: m.typ, ts: m.ts, payload: m.payload})
	}
	if vrt.Param("prop") == 2 {
		c02Check("rtmp", got, pub, kinds, jr, cfg.RtmpConfig.GopNum)
	} else {
		c01Check("rtmp", got, pub, kinds, jr, cfg.RtmpConfig.GopNum)
	}

	if rconn2 != nil {
		rd2 := &refChunkReader{chunkSize: rtmp.LocalChunkSize}
		vrt.Assert(rd2.readAll(rconn2.All()), "rtmp2: log is a well-formed chunk stream")
		var got2 []c01Recv
		for _, m := range rd2.out {
			got2 = append(got2, c01Recv{typ: m.typ, ts: m.ts, payload: m.payload})
		}
		if vrt.Param("prop") == 2 {
			c02Check("rtmp2", got2, pub, kinds, jr2, cfg.RtmpConfig.GopNum)
		} else {
			c01Check("rtmp2", got2, pub, kinds, jr2, cfg.RtmpConfig.GopNum)
		}
	}

	// HTTP-FLV subscriber: writes[0] = HTTP response header, writes[1] = FLV header, then tags
	vrt.Assert(len(fconn.Writes) >= 2 && len(fconn.Writes[1]) == 13 && fconn.Writes[1][0] == 'F', "flv: response header then FLV header")
	var body []byte
	for _, w := range fconn.Writes[2:] {
		body = append(body, w...)
	}
	tags, ok := c01ParseFlvTags(body)
	vrt.Assert(ok, "flv: log is a well-formed tag stream")
	var gotf []c01Recv
	for _, t := range tags {
		gotf = append(gotf, c01Recv{typ: t.typ, ts: t.ts, payload: t.body})
	}
	if vrt.Param("prop") == 2 {
		c02Check("flv", gotf, pub, kinds, jf, cfg.HttpflvConfig.GopNum)
	} else {
		c01Check("flv", gotf, pub, kinds, jf, cfg.HttpflvConfig.GopNum)
	}
	vrt.Cover("end")
}
