package remux

import (
	"github.com/q191201771/lal/pkg/base"
	"github.com/q191201771/lal/pkg/mpegts"
	vrt "github.com/q191201771/lal/pkg/zzvrt"
)

type c06Collector struct {
	patpmt  []byte
	packets []byte
}

func (o *c06Collector) OnPatPmt(b []byte) { o.patpmt = append([]byte{}, b...) }
func (o *c06Collector) OnTsPackets(tsPackets []byte, frame *mpegts.Frame, boundary bool) {
	o.packets = append(o.packets, tsPackets...)
}

type c06Pes struct {
	pid uint16
	hdr refPes
}

// c06Demux splits the TS stream into PES packets per PID (reference demuxer).
func c06Demux(ts []byte) ([]c06Pes, bool) {
	var out []c06Pes
	cur := map[uint16][]byte{}
	var order []uint16
	flush := func(pid uint16) bool {
		b := cur[pid]
		if len(b) == 0 {
			return true
		}
		h := refParsePes(b)
		if !h.ok {
			return false
		}
		out = append(out, c06Pes{pid: pid, hdr: h})
		cur[pid] = nil
		return true
	}
	for i := 0; i+188 <= len(ts); i += 188 {
		p := refParseTsPacket(ts[i : i+188])
		if !p.ok {
			return nil, false
		}
		if p.pusi {
			if !flush(p.pid) {
				return nil, false
			}
			order = append(order, p.pid)
		}
		cur[p.pid] = append(cur[p.pid], p.payload...)
	}
	for _, pid := range []uint16{mpegts.PidVideo, mpegts.PidAudio} {
		if !flush(pid) {
			return nil, false
		}
	}
	_ = order
	return out, true
}

// c06SplitAnnexb is a reference Annex-B splitter (ITU-T H.264 Annex B: units separated by 00 00 01,
// leading zero_byte and trailing zeros belong to the separator).
func c06SplitAnnexb(b []byte) [][]byte {
	var nals [][]byte
	start := -1
	i := 0
	for i+2 < len(b) {
		if b[i] == 0 && b[i+1] == 0 && b[i+2] == 1 {
			if start >= 0 {
				end := i
				for end > start && b[end-1] == 0 {
					end--
				}
				nals = append(nals, b[start:end])
			}
			start = i + 3
			i += 3
			continue
		}
		i++
	}
	if start >= 0 && start <= len(b) {
		nals = append(nals, b[start:])
	}
	return nals
}

func c06Eq(a, b []byte) bool {
	if len(a) != len(b) {
		return false
	}
	same := true
	for i := range a {
		same = vrt.And(same, a[i] == b[i])
	}
	return same
}

var (
	c06HevcVps = []byte{0x40, 0x01, 0x0c, 0x01, 0xff, 0xff, 0x01, 0x60}
	c06HevcSps = []byte{0x42, 0x01, 0x01, 0x01, 0x60, 0x90}
	c06HevcPps = []byte{0x44, 0x01, 0xc1, 0x72}
)

// c06HevcSeqHeader builds an hvcC sequence header (ISO/IEC 14496-15 8.3.3.1) with one VPS, SPS and PPS.
func c06HevcSeqHeader() base.RtmpMsg {
	p := []byte{0x1c, 0, 0, 0, 0}
	p = append(p, make([]byte, 22)...)
	p[5] = 1
	p = append(p, 3)
	for _, a := range []struct {
		t byte
		b []byte
	}{{32, c06HevcVps}, {33, c06HevcSps}, {34, c06HevcPps}} {
		p = append(p, a.t, 0, 1, byte(len(a.b)>>8), byte(len(a.b)))
		p = append(p, a.b...)
	}
	return base.RtmpMsg{Header: base.RtmpHeader{Csid: 6, MsgLen: uint32(len(p)), MsgTypeId: 9, MsgStreamId: 1}, Payload: p}
}

// c06Type is the NAL unit type under the codec of this instance.
func c06Type(hevc bool, b0 byte) uint8 {
	if hevc {
		return b0 >> 1 & 0x3f
	}
	return b0 & 0x1f
}

// c06Nal returns a symbolic NAL unit of the given class: 0 IDR, 1 trailing slice, 2 SEI, 3 AUD,
// 4 any type that the TS leg has no special rule for (arbitrary: AVC 1..23 minus 5..9, HEVC 0..31 and
// 36..63 minus the prefix/suffix SEI; covers leading pictures, reserved and unspecified types)
func c06Nal(tag string, hevc bool, class, n int) []byte {
	nal := vrt.Bytes(tag, n)
	vrt.Assume(nal[0]&0x80 == 0)
	t := c06Type(hevc, nal[0])
	if hevc {
		switch class {
		case 4:
			vrt.Assume(!vrt.Or(vrt.And(t >= 32, t <= 35), vrt.Or(t == 39, t == 40)))
		default:
			vrt.Assume(t == []uint8{19, 1, 39, 35}[class])
		}
	} else {
		switch class {
		case 4:
			vrt.Assume(vrt.And(t >= 1, vrt.Or(t < 5, t > 9)))
		default:
			vrt.Assume(t == []uint8{5, 1, 6, 9}[class])
		}
	}
	vrt.Assume(nal[n-1] != 0)
	for i := 0; i+2 < n; i++ {
		vrt.Assume(!vrt.And(vrt.And(nal[i] == 0, nal[i+1] == 0), nal[i+2] <= 3))
	}
	return nal
}

func c06VideoMsg(hevc bool, ts uint32, key bool, cts uint32, nals [][]byte) base.RtmpMsg {
	p := []byte{0x27, 1, byte(cts >> 16), byte(cts >> 8), byte(cts)}
	if key {
		p[0] = 0x17
	}
	if hevc {
		p[0] = p[0]&0xf0 | 0x0c
	}
	for _, n := range nals {
		p = append(p, byte(len(n)>>24), byte(len(n)>>16), byte(len(n)>>8), byte(len(n)))
		p = append(p, n...)
	}
	return base.RtmpMsg{Header: base.RtmpHeader{Csid: 6, MsgLen: uint32(len(p)), MsgTypeId: 9, MsgStreamId: 1, TimestampAbs: ts}, Payload: p}
}

// VerifC06Ts: AVC + AAC published over RTMP reach the TS output with the same NAL units / AAC frames.
func VerifC06Ts() {
	col := &c06Collector{}
	r := NewRtmp2MpegtsRemuxer(col)
	hevc := vrt.Param("codec") == 1
	if hevc {
		vrt.Assume(vrt.Param("nlen") >= 2) // an H.265 NAL unit header is two bytes
		r.FeedRtmpMessage(c06HevcSeqHeader())
	} else {
		r.FeedRtmpMessage(c05AvcSeqHeader())
	}
	r.FeedRtmpMessage(c05AacSeqHeader())
	vrt.Assert(len(col.patpmt) == 376, "PAT/PMT emitted before any frame")

	nl := vrt.Param("nlen")
	// frame 1: key frame, NAL classes from cls1 (two digits base 5), frame 2: inter frame with one slice
	cls := vrt.Param("cls1")
	n1 := c06Nal("n1", hevc, cls%5, nl)
	n2 := c06Nal("n2", hevc, cls/5%5, nl)
	ts1 := uint32(vrt.Param("ts1"))
	cts1 := uint32(vrt.Param("cts1"))
	key := cls%5 == 0 || cls/5%5 == 0
	r.FeedRtmpMessage(c06VideoMsg(hevc, ts1, key, cts1, [][]byte{n1, n2}))

	// audio: a frames of alen bytes each
	an := vrt.Param("aframes")
	al := vrt.Param("alen")
	var afr [][]byte
	tsa := ts1 + 5
	for i := 0; i < an; i++ {
		f := vrt.Bytes("aac", al)
		afr = append(afr, f)
		p := append([]byte{0xaf, 1}, f...)
		r.FeedRtmpMessage(base.RtmpMsg{Header: base.RtmpHeader{Csid: 4, MsgLen: uint32(len(p)), MsgTypeId: 8, MsgStreamId: 1, TimestampAbs: tsa + uint32(i)*23}, Payload: p})
	}
	// frame 2
	ts2 := ts1 + uint32(vrt.Param("dt"))
	n3 := c06Nal("n3", hevc, 1, nl)
	r.FeedRtmpMessage(c06VideoMsg(hevc, ts2, false, 0, [][]byte{n3}))
	r.Dispose()

	vrt.Assert(len(col.packets)%188 == 0, "whole TS packets")
	pes, ok := c06Demux(col.packets)
	vrt.Assert(ok, "output demultiplexes (TS and PES well-formed)")
	if !ok {
		return
	}
	var vp, ap []refPes
	for _, p := range pes {
		if p.pid == mpegts.PidVideo {
			vp = append(vp, p.hdr)
		} else if p.pid == mpegts.PidAudio {
			ap = append(ap, p.hdr)
		}
	}
	strip := func(in [][]byte) [][]byte {
		var out [][]byte
		for _, n := range in {
			if len(n) == 0 {
				continue
			}
			t := c06Type(hevc, n[0])
			if hevc {
				if (t >= 32 && t <= 35) || t == 39 || t == 40 { // parameter sets, AUD, SEI (omitted from TS for H.265)
					continue
				}
			} else if t == 9 || t == 7 || t == 8 {
				continue
			}
			out = append(out, n)
		}
		return out
	}
	want1 := strip([][]byte{n1, n2})
	if len(want1) == 0 {
		// a message made only of units the TS leg omits produces no PES
		vrt.Assert(len(vp) == 1, "no PES for a frame without forwardable units")
		if len(vp) == 1 {
			got2 := strip(c06SplitAnnexb(vp[0].es))
			vrt.Assert(len(got2) == 1 && c06Eq(got2[0], n3), "frame 2: NAL unit byte for byte")
		}
		vrt.Cover("end")
		return
	}
	vrt.Assert(len(vp) == 2, "one PES per video frame")
	if len(vp) != 2 {
		return
	}
	got1 := strip(c06SplitAnnexb(vp[0].es))
	vrt.Assert(len(got1) == len(want1), "frame 1: same number of NAL units (AUD, parameter sets and H.265 SEI aside)")
	for i := 0; i < len(want1) && i < len(got1); i++ {
		vrt.Assert(c06Eq(got1[i], want1[i]), "frame 1: NAL units byte for byte, in order")
	}
	got2 := strip(c06SplitAnnexb(vp[1].es))
	vrt.Assert(len(got2) == 1 && c06Eq(got2[0], n3), "frame 2: NAL unit byte for byte")
	// key frame carries the parameter sets before the IDR
	if cls%5 == 0 || cls/5%5 == 0 {
		all := c06SplitAnnexb(vp[0].es)
		sawVps, sawSps, sawPps, idrAfter := !hevc, false, false, true
		for _, n := range all {
			if len(n) == 0 {
				continue
			}
			t := c06Type(hevc, n[0])
			if hevc {
				switch {
				case t == 32:
					sawVps = c06Eq(n, c06HevcVps)
				case t == 33:
					sawSps = c06Eq(n, c06HevcSps)
				case t == 34:
					sawPps = c06Eq(n, c06HevcPps)
				case t == 19:
					if !sawVps || !sawSps || !sawPps {
						idrAfter = false
					}
				}
			} else {
				switch t {
				case 7:
					sawSps = c06Eq(n, c05Sps)
				case 8:
					sawPps = c06Eq(n, c05Pps)
				case 5:
					if !sawSps || !sawPps {
						idrAfter = false
					}
				}
			}
		}
		vrt.Assert(sawVps && sawSps && sawPps && idrAfter, "parameter sets re-inserted before the IDR unit")
	}
	// timestamps: one constant per track
	d1, d2 := vp[0].pts, vp[1].pts
	if vp[0].hasDts {
		d1 = vp[0].dts
	}
	if vp[1].hasDts {
		d2 = vp[1].dts
	}
	vrt.Assert((d2-d1)&(1<<33-1) == (uint64(ts2-ts1)*90)&(1<<33-1), "video DTS = 90*timestamp up to one constant")
	vrt.Assert((vp[0].pts-d1)&(1<<33-1) == uint64(cts1)*90, "video PTS = DTS + 90*composition offset")
	// audio: ADTS frames in order
	var aes []byte
	for _, p := range ap {
		aes = append(aes, p.es...)
	}
	pos := 0
	for i := 0; i < an; i++ {
		vrt.Assert(len(aes) >= pos+7+al, "audio: ADTS frame present")
		if len(aes) < pos+7+al {
			return
		}
		h := aes[pos : pos+7]
		vrt.Assert(h[0] == 0xff && h[1]&0xf0 == 0xf0, "ADTS syncword")
		fl := int(h[3]&3)<<11 | int(h[4])<<3 | int(h[5])>>5
		vrt.Assert(fl == 7+al, "ADTS frame length = header + frame")
		vrt.Assert(h[2]>>6 == 1 && h[2]>>2&0xf == 4 && (h[2]&1)<<2|h[3]>>6 == 2, "ADTS profile/rate/channels from the ASC (AAC-LC 44.1 kHz stereo)")
		vrt.Assert(c06Eq(aes[pos+7:pos+7+al], afr[i]), "audio frame byte for byte, in order")
		pos += 7 + al
	}
	vrt.Assert(pos == len(aes), "no extra audio bytes")
	vrt.Cover("end")
}

// VerifC06Timestamps: the TS timestamp filter for arbitrary 32-bit RTMP timestamps: per track, output
// DTS differs from 90*timestamp by one constant (the first frame's DTS), PTS = DTS + 90*cts.
func VerifC06Timestamps() {
	var f Rtmp2MpegtsTimestampFilter
	f.Init("uk")
	sid := mpegts.StreamIdVideo
	if vrt.Param("audio") == 1 {
		sid = mpegts.StreamIdAudio
	}
	t0, t1 := vrt.U32("t0"), vrt.U32("t1")
	c1 := vrt.U32("cts") & 0xffffff
	f0 := &mpegts.Frame{Sid: sid, Dts: uint64(t0) * 90, Pts: uint64(t0) * 90}
	f.Do(f0)
	f1 := &mpegts.Frame{Sid: sid, Dts: uint64(t1) * 90, Cts: c1}
	f1.Pts = f1.Dts + 90*uint64(c1)
	f.Do(f1)
	vrt.Assert(f0.Dts == 0, "first frame of a track is rebased to 0")
	if t1 >= t0 {
		vrt.Assert(f1.Dts == uint64(t1-t0)*90, "DTS = 90*(timestamp - first timestamp): one constant per track")
	}
	vrt.Assert(f1.Pts == f1.Dts+90*uint64(c1), "PTS = DTS + 90*composition offset")
	vrt.Cover("end")
}
