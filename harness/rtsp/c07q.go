package rtsp

import (
	"github.com/q191201771/lal/pkg/base"
	vrt "github.com/q191201771/lal/pkg/zzvrt"
)

// VerifC07Queue: the A/V interleave queue of an RTSP ingest session. k packets, each audio or video
// (solver's choice), per-track timestamps arbitrary non-decreasing milliseconds. Every packet comes out
// at most once, in its track's order, with its track's timestamps shifted by one constant; the merged
// output is in time order; at any instant at most one track has packets waiting.
func VerifC07Queue() {
	k := vrt.Param("k")
	var out []base.AvPacket
	q := NewAvPacketQueue(func(p base.AvPacket) { out = append(out, p) })
	isAudio := make([]bool, k)
	ts := make([]int64, k)
	var lastA, lastV int64 = -1, -1
	for i := 0; i < k; i++ {
		isAudio[i] = vrt.Bool("audio")
		ts[i] = int64(vrt.U32("ts"))
		pt := base.AvPacketPtAvc
		if isAudio[i] {
			pt = base.AvPacketPtAac
			vrt.Assume(ts[i] >= lastA)
			lastA = ts[i]
		} else {
			vrt.Assume(ts[i] >= lastV)
			lastV = ts[i]
		}
		q.Feed(base.AvPacket{PayloadType: pt, Timestamp: ts[i], Payload: []byte{byte(i)}})
		vrt.Assert(q.audioQueue.Empty() || q.videoQueue.Empty(), "at most one track has packets waiting")
	}
	// per-track: outputs are a prefix of the inputs, in order, shifted by one constant
	nextIn := func(from int, audio bool) int {
		for j := from; j < k; j++ {
			if isAudio[j] == audio {
				return j
			}
		}
		return -1
	}
	pa, pv := 0, 0
	var baseA, baseV int64
	haveA, haveV := false, false
	var prevTs int64 = -1
	for _, p := range out {
		audio := p.PayloadType == base.AvPacketPtAac
		var j int
		if audio {
			j = nextIn(pa, true)
		} else {
			j = nextIn(pv, false)
		}
		vrt.Assert(j >= 0 && len(p.Payload) == 1 && int(p.Payload[0]) == j, "each packet exactly once, in its track's order")
		if j < 0 {
			return
		}
		if audio {
			pa = j + 1
			if !haveA {
				baseA, haveA = ts[j]-p.Timestamp, true
			}
			vrt.Assert(ts[j]-p.Timestamp == baseA, "audio timestamps shifted by one constant")
		} else {
			pv = j + 1
			if !haveV {
				baseV, haveV = ts[j]-p.Timestamp, true
			}
			vrt.Assert(ts[j]-p.Timestamp == baseV, "video timestamps shifted by one constant")
		}
		vrt.Assert(p.Timestamp >= prevTs, "merged output is in time order")
		prevTs = p.Timestamp
	}
	// nothing is held back once the other track has caught up: whatever is still queued belongs to one track
	// and is not older than everything emitted
	vrt.Assert(len(out)+q.audioQueue.Size()+q.videoQueue.Size() == k, "no packet lost or duplicated")
	vrt.Cover("end")
}
