package main

import (
	"encoding/json"
	"flag"
	"fmt"
	"os"
	"path/filepath"
	"runtime"
	"strconv"
	"strings"

	"gosym/sym"
)

func usage() {
	fmt.Fprintln(os.Stderr, "usage: gosym check <property> <quick|thorough> [-v] | gosym replay <property> <path>")
	os.Exit(2)
}

func main() {
	if len(os.Args) < 2 {
		usage()
	}
	verifDir := os.Getenv("VERIF_DIR")
	if verifDir == "" {
		verifDir = "/verif"
	}
	switch os.Args[1] {
	case "check":
		fs := flag.NewFlagSet("check", flag.ExitOnError)
		verbose := fs.Bool("v", false, "verbose")
		only := fs.String("only", "", "run only harnesses whose name contains this")
		workers := fs.Int("j", runtime.NumCPU(), "workers")
		if len(os.Args) < 4 {
			usage()
		}
		prop, tier := os.Args[2], os.Args[3]
		fs.Parse(os.Args[4:])
		spec := loadSpec(verifDir, prop)
		if *only != "" {
			var hs []sym.HarnessSpec
			for _, h := range spec.Harnesses {
				if strings.Contains(h.Name, *only) {
					hs = append(hs, h)
				}
			}
			spec.Harnesses = hs
		}
		seed := int64(1)
		if s := os.Getenv("VERIF_SEED"); s != "" {
			if v, err := strconv.ParseInt(s, 10, 64); err == nil {
				seed = v
			}
		}
		known, err := sym.LoadKnown(filepath.Join(verifDir, "known_findings.json"))
		if err != nil {
			fmt.Println("ERROR reading known_findings.json:", err)
			os.Exit(3)
		}
		d := &sym.Driver{VerifDir: verifDir, Spec: spec, Tier: tier, Seed: seed, Workers: *workers, Verbose: *verbose, Known: known}
		os.Exit(d.Run())
	case "run":
		// gosym run <property> <harness> [k=v ...]   (debugging: one instance, progress output)
		spec := loadSpec(verifDir, os.Args[2])
		params := map[string]int{}
		for _, kv := range os.Args[4:] {
			i := strings.Index(kv, "=")
			v, _ := strconv.Atoi(kv[i+1:])
			params[kv[:i]] = v
		}
		d := &sym.Driver{VerifDir: verifDir, Spec: spec, Tier: "quick", Verbose: true}
		os.Exit(d.RunOne(os.Args[3], params))
	case "replay":
		if len(os.Args) < 4 {
			usage()
		}
		spec := loadSpec(verifDir, os.Args[2])
		d := &sym.Driver{VerifDir: verifDir, Spec: spec, Tier: "quick"}
		os.Exit(d.ReplayOne(os.Args[3]))
	default:
		usage()
	}
}

func loadSpec(verifDir, prop string) *sym.CheckSpec {
	b, err := os.ReadFile(filepath.Join(verifDir, "checks", prop+".json"))
	if err != nil {
		fmt.Println("ERROR:", err)
		os.Exit(3)
	}
	var spec sym.CheckSpec
	if err := json.Unmarshal(b, &spec); err != nil {
		fmt.Println("ERROR: bad spec:", err)
		os.Exit(3)
	}
	return &spec
}
