package logic

// Reference RTMP chunk-stream reader written from "RTMP Specification 1.0" section 5.3.1.
// Straight-line, table-free, shares no code with lal.

type refMsg struct {
	csid    int
	typ     uint8
	msid    uint32
	length  uint32
	ts      uint32
	payload []byte
}

type refChunkStream struct {
	used    bool
	csid    int
	ts      uint32 // absolute timestamp of the current/last message
	delta   uint32
	length  uint32
	typ     uint8
	msid    uint32
	hadExt  bool // most recent type 0/1/2 chunk carried an extended timestamp
	payload []byte
	inMsg   bool // a message is partially received
}

type refChunkReader struct {
	chunkSize int
	cs        []*refChunkStream
	out       []refMsg
}

func (r *refChunkReader) stream(csid int) *refChunkStream {
	for _, s := range r.cs {
		if s.csid == csid {
			return s
		}
	}
	s := &refChunkStream{csid: csid}
	r.cs = append(r.cs, s)
	return s
}

// readChunk consumes one chunk from b; returns bytes consumed or -1 if b is too short / malformed.
func (r *refChunkReader) readChunk(b []byte) int {
	if len(b) < 1 {
		return -1
	}
	format := b[0] >> 6
	csid := int(b[0] & 0x3f)
	pos := 1
	if csid == 0 {
		if len(b) < 2 {
			return -1
		}
		csid = 64 + int(b[1])
		pos = 2
	} else if csid == 1 {
		if len(b) < 3 {
			return -1
		}
		csid = 64 + int(b[1]) + int(b[2])*256
		pos = 3
	}
	s := r.stream(csid)
	var field uint32
	if format <= 2 {
		if len(b) < pos+3 {
			return -1
		}
		field = uint32(b[pos])<<16 | uint32(b[pos+1])<<8 | uint32(b[pos+2])
		pos += 3
	}
	if format <= 1 {
		if len(b) < pos+4 {
			return -1
		}
		s.length = uint32(b[pos])<<16 | uint32(b[pos+1])<<8 | uint32(b[pos+2])
		s.typ = b[pos+3]
		pos += 4
	}
	if format == 0 {
		if len(b) < pos+4 {
			return -1
		}
		s.msid = uint32(b[pos]) | uint32(b[pos+1])<<8 | uint32(b[pos+2])<<16 | uint32(b[pos+3])<<24
		pos += 4
	}
	if format <= 2 {
		s.hadExt = field == 0xFFFFFF
	}
	if s.hadExt {
		if len(b) < pos+4 {
			return -1
		}
		ext := uint32(b[pos])<<24 | uint32(b[pos+1])<<16 | uint32(b[pos+2])<<8 | uint32(b[pos+3])
		pos += 4
		if format <= 2 {
			field = ext
		}
	}
	switch format {
	case 0:
		s.ts = field
		s.delta = 0
	case 1, 2:
		s.delta = field
		s.ts += field
	case 3:
		if !s.inMsg {
			// a new message started with a type 3 chunk repeats the previous delta
			s.ts += s.delta
		}
	}
	s.used = true
	need := int(s.length) - len(s.payload)
	if need > r.chunkSize {
		need = r.chunkSize
	}
	if len(b) < pos+need {
		return -1
	}
	s.payload = append(s.payload, b[pos:pos+need]...)
	pos += need
	s.inMsg = true
	if len(s.payload) == int(s.length) {
		r.out = append(r.out, refMsg{csid: csid, typ: s.typ, msid: s.msid, length: s.length, ts: s.ts, payload: s.payload})
		s.payload = nil
		s.inMsg = false
	}
	return pos
}

// readAll consumes chunks until b is exhausted; returns false if trailing bytes do not form a chunk.
func (r *refChunkReader) readAll(b []byte) bool {
	for len(b) > 0 {
		n := r.readChunk(b)
		if n <= 0 {
			return false
		}
		b = b[n:]
	}
	return true
}
