package logic

import (
	"github.com/q191201771/lal/pkg/base"
	"github.com/q191201771/lal/pkg/httpts"
	vkit "github.com/q191201771/lal/pkg/zzvkit"
	vrt "github.com/q191201771/lal/pkg/zzvrt"
)

// c05Prefix returns the concrete prefix of message class pre (the tail that follows is arbitrary).
func c05Prefix(pre int) []byte {
	switch pre {
	case 1:
		return []byte{0x17, 0, 0, 0, 0}
	case 2:
		return []byte{0x17, 1}
	case 3:
		return []byte{0x27, 1, 0, 0, 0}
	case 4:
		return []byte{0xaf, 0}
	case 5:
		return []byte{0xaf, 1}
	case 6:
		return []byte{0x1c, 0, 0, 0, 0}
	case 7:
		return []byte{0x1c, 1, 0, 0, 0}
	case 8:
		return []byte{0x90, 'h', 'v', 'c', '1'}
	case 9:
		return []byte{0x91, 'h', 'v', 'c', '1'}
	case 11:
		return []byte{0x17, 1, 0, 0, 0, 0, 0, 0}
	case 14: // avcC record up to and including the SPS count; SPS length, SPS, PPS count, PPS length, PPS arbitrary
		return []byte{0x17, 0, 0, 0, 0, 1, 0x64, 0, 0x1f, 0xff, 0xe1}
	}
	return nil
}

func kitTsSub() (*httpts.SubSession, *vkit.Conn) {
	c := &vkit.Conn{}
	var u base.UrlContext
	u.LastItemOfPath = "s1.ts"
	return httpts.NewSubSession(c, u, false, ""), c
}

// VerifC05Group: one published message of an arbitrary class goes through the whole group: statistics,
// GOP caches, RTMP / HTTP-FLV / HTTP-TS fan-out, RTMP->MPEG-TS and RTMP->RTSP remuxers, optional dummy
// audio filter. Nothing panics, every loop stays within the loop budget, subscribers attached before and
// after the message.
func VerifC05Group() {
	cfg := kitConfig()
	cfg.HttptsConfig.Enable = true
	cfg.RtspConfig.Enable = true
	cfg.RtmpConfig.GopNum = vrt.Param("gop")
	cfg.HttpflvConfig.GopNum = vrt.Param("gop")
	cfg.HttptsConfig.GopNum = vrt.Param("gop")
	cfg.InSessionConfig.AddDummyAudioEnable = vrt.Param("dummy") == 1
	cfg.InSessionConfig.AddDummyAudioWaitAudioMs = 100
	g, _ := kitGroup(cfg)
	pubSess, _ := kitRtmpSession()
	vrt.Assert(g.AddRtmpPubSession(pubSess) == nil, "publisher accepted")
	rs, _ := kitRtmpSession()
	g.AddRtmpSubSession(rs)
	fs, _ := kitFlvSub(false)
	g.AddHttpflvSubSession(fs)
	ts, _ := kitTsSub()
	g.AddHttptsSubSession(ts)

	if vrt.Param("setup") == 1 {
		g.OnReadRtmpAvMsg(c01Make(kVsh, "s"))
		g.OnReadRtmpAvMsg(c01Make(kAsh, "s"))
	}
	p := append([]byte{}, c05Prefix(vrt.Param("pre"))...)
	p = append(p, vrt.Bytes("m", vrt.Param("tail"))...)
	if len(p) == 0 {
		p = vrt.Bytes("nz", 1)
	}
	g.OnReadRtmpAvMsg(kitMsg(uint8(vrt.Param("typ")), vrt.U32("ts"), p))

	// late joiners receive whatever was cached from that message
	rs2, _ := kitRtmpSession()
	g.AddRtmpSubSession(rs2)
	fs2, _ := kitFlvSub(false)
	g.AddHttpflvSubSession(fs2)
	g.OnReadRtmpAvMsg(c01Make(kVkey, "k"))
	g.OnReadRtmpAvMsg(c01Make(kAraw, "a"))
	vrt.Cover("end")
}
