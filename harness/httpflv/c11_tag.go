package httpflv

import (
	vrt "github.com/q191201771/lal/pkg/zzvrt"
)

// refFlvTag is an FLV tag parser written from the FLV file format specification v10, Annex E.4.
type refFlvTag struct {
	ok        bool
	typ       uint8
	dataSize  int
	timestamp uint32
	streamId  uint32
	body      []byte
	total     int
}

func refParseFlvTag(b []byte) (t refFlvTag) {
	if len(b) < 11 {
		return
	}
	t.typ = b[0]
	t.dataSize = int(b[1])<<16 | int(b[2])<<8 | int(b[3])
	t.timestamp = uint32(b[7])<<24 | uint32(b[4])<<16 | uint32(b[5])<<8 | uint32(b[6])
	t.streamId = uint32(b[8])<<16 | uint32(b[9])<<8 | uint32(b[10])
	if len(b) < 11+t.dataSize+4 {
		return
	}
	t.body = b[11 : 11+t.dataSize]
	p := b[11+t.dataSize:]
	prev := int(p[0])<<24 | int(p[1])<<16 | int(p[2])<<8 | int(p[3])
	if prev != 11+t.dataSize {
		return
	}
	t.total = 15 + t.dataSize
	t.ok = true
	return
}

type c11Reader struct{ b []byte }

type c11Err struct{}

func (*c11Err) Error() string { return "eof" }

var c11EOF = &c11Err{}

func (r *c11Reader) Read(p []byte) (int, error) {
	if len(r.b) == 0 {
		return 0, c11EOF
	}
	n := copy(p, r.b)
	r.b = r.b[n:]
	return n, nil
}

// VerifC11Tag: PackHttpflvTag / ReadTag / ModTagTimestamp for payloads of len1 and len2 bytes.
func VerifC11Tag() {
	n1, n2 := vrt.Param("len1"), vrt.Param("len2")
	t1, ts1, p1 := vrt.U8("type1"), vrt.U32("ts1"), vrt.Bytes("p1", n1)
	t2, ts2, p2 := vrt.U8("type2"), vrt.U32("ts2"), vrt.Bytes("p2", n2)
	o1 := PackHttpflvTag(t1, ts1, p1)
	o2 := PackHttpflvTag(t2, ts2, p2)
	stream := append(append([]byte{}, o1...), o2...)

	// conforming parser
	r1 := refParseFlvTag(stream)
	vrt.Assert(r1.ok, "first tag parses (sizes mutually consistent)")
	vrt.Assert(r1.typ == t1 && r1.timestamp == ts1 && r1.streamId == 0 && r1.dataSize == n1, "first tag fields")
	vrt.Assert(r1.total == len(o1), "first tag length")
	for i := 0; i < n1 && i < len(r1.body); i++ {
		vrt.Assert(r1.body[i] == p1[i], "first tag payload")
	}
	if r1.ok {
		r2 := refParseFlvTag(stream[r1.total:])
		vrt.Assert(r2.ok && r2.typ == t2 && r2.timestamp == ts2 && r2.streamId == 0 && r2.dataSize == n2 && r2.total == len(o2), "second tag fields")
		for i := 0; i < n2 && i < len(r2.body); i++ {
			vrt.Assert(r2.body[i] == p2[i], "second tag payload")
		}
	}

	// lal's reader
	rd := &c11Reader{b: stream}
	g1, err := ReadTag(rd)
	vrt.Assert(err == nil, "ReadTag first: no error")
	vrt.Assert(g1.Header.Type == t1 && g1.Header.Timestamp == ts1 && g1.Header.DataSize == uint32(n1), "ReadTag first: header")
	vrt.Assert(len(g1.Raw) == len(o1), "ReadTag first: raw length")
	pl := g1.Payload()
	vrt.Assert(len(pl) == n1, "ReadTag first: payload length")
	for i := 0; i < n1 && i < len(pl); i++ {
		vrt.Assert(pl[i] == p1[i], "ReadTag first: payload")
	}
	g2, err := ReadTag(rd)
	vrt.Assert(err == nil && g2.Header.Type == t2 && g2.Header.Timestamp == ts2 && g2.Header.DataSize == uint32(n2), "ReadTag second")
	_, err = ReadTag(rd)
	vrt.Assert(err != nil && len(rd.b) == 0, "ReadTag: end of stream after two tags")

	// re-stamping
	nts := vrt.U32("newts")
	g1.ModTagTimestamp(nts)
	r3 := refParseFlvTag(g1.Raw)
	vrt.Assert(r3.ok && r3.timestamp == nts && r3.typ == t1 && r3.dataSize == n1, "ModTagTimestamp keeps the tag valid")
	vrt.Cover("end")
}

// VerifC11FlvHeader: the constant FLV header is the 9-byte header plus a zero back-pointer.
func VerifC11FlvHeader() {
	h := FlvHeader
	vrt.Assert(len(h) == 13, "13 bytes")
	vrt.Assert(h[0] == 'F' && h[1] == 'L' && h[2] == 'V' && h[3] == 1, "signature and version")
	vrt.Assert(h[4]&0xfa == 0, "reserved flag bits zero")
	vrt.Assert(h[5] == 0 && h[6] == 0 && h[7] == 0 && h[8] == 9, "data offset 9")
	vrt.Assert(h[9] == 0 && h[10] == 0 && h[11] == 0 && h[12] == 0, "PreviousTagSize0 is zero")
	vrt.Cover("end")
}
