package logic

import (
	"github.com/q191201771/lal/pkg/base"
	"github.com/q191201771/lal/pkg/httpflv"
	"github.com/q191201771/lal/pkg/httpts"
	"github.com/q191201771/lal/pkg/rtmp"
	"github.com/q191201771/lal/pkg/rtsp"
	vkit "github.com/q191201771/lal/pkg/zzvkit"
	vrt "github.com/q191201771/lal/pkg/zzvrt"
)

// kitSymbolicClock is set by harnesses whose property depends on time (relay pull windows).
var kitSymbolicClock = false

// ---- G-kit: a Group with real session objects over fake connections (no goroutines, sockets or files) ----

type kitGroupObserver struct {
	pullStart, pullStop int
	hlsMakeTs, cleanup  int
}

func (o *kitGroupObserver) CleanupHlsIfNeeded(appName string, streamName string, path string) {
	o.cleanup++
}
func (o *kitGroupObserver) OnHlsMakeTs(info base.HlsMakeTsInfo)      { o.hlsMakeTs++ }
func (o *kitGroupObserver) OnRelayPullStart(info base.PullStartInfo) { o.pullStart++ }
func (o *kitGroupObserver) OnRelayPullStop(info base.PullStopInfo)   { o.pullStop++ }

func kitConfig() *Config {
	c := &Config{}
	c.RtmpConfig.Enable = true
	c.HttpflvConfig.Enable = true
	return c
}

func kitGroup(c *Config) (*Group, *kitGroupObserver) {
	if !kitSymbolicClock {
		vrt.ConcreteClock(1700000000000000000, 1000000)
	}
	// synchronous writes: no writer goroutine inside the naza connection
	httpflv.SubSessionWriteChanSize = 0
	httpts.SubSessionWriteChanSize = 0
	obs := &kitGroupObserver{}
	return NewGroup("live", "s1", c, GroupOption{}, obs), obs
}

func kitRtmpSession() (*rtmp.ServerSession, *vkit.Conn) {
	c := &vkit.Conn{}
	return rtmp.NewServerSession(nil, c), c
}

func kitRtspPubSession() *rtsp.PubSession {
	var u base.UrlContext
	u.LastItemOfPath = "s1"
	return rtsp.NewPubSession(u, nil)
}

func kitFlvSub(ws bool) (*httpflv.SubSession, *vkit.Conn) {
	c := &vkit.Conn{}
	var u base.UrlContext
	u.LastItemOfPath = "s1.flv"
	return httpflv.NewSubSession(c, u, ws, "key"), c
}

func kitMsg(typ uint8, ts uint32, payload []byte) base.RtmpMsg {
	csid := 6
	if typ == base.RtmpTypeIdAudio {
		csid = 4
	}
	return base.RtmpMsg{Header: base.RtmpHeader{Csid: csid, MsgLen: uint32(len(payload)), MsgTypeId: typ, MsgStreamId: 1, TimestampAbs: ts}, Payload: payload}
}

func kitConnNil() *vkit.Conn { return &vkit.Conn{} }
