package rtprtcp

import (
	"github.com/q191201771/lal/pkg/base"
	vrt "github.com/q191201771/lal/pkg/zzvrt"
)

// VerifC13Rtp: one or two arbitrary RTP datagrams through header parsing, Body(), the boundary tests
// used by the group for RTSP subscribers, and the unpack container of each payload format.
func VerifC13Rtp() {
	n := vrt.Param("n")
	var pt base.AvPacketPt
	switch vrt.Param("pt") {
	case 0:
		pt = base.AvPacketPtAvc
	case 1:
		pt = base.AvPacketPtHevc
	case 2:
		pt = base.AvPacketPtAac
	case 3:
		pt = base.AvPacketPtG711A
	}
	sink := 0
	u := DefaultRtpUnpackerFactory(pt, vrt.Param("rate"), vrt.Param("win"), func(pkt base.AvPacket) { sink++ })
	for k := 0; k < vrt.Param("pkts"); k++ {
		b := vrt.Bytes("dgram", n)
		if vrt.Param("shape") == 1 && n >= 12 {
			// plain header: version 2, no padding / extension / CSRC, so the body is reached with every byte count
			vrt.Assume(b[0] == 0x80)
		}
		if vrt.Param("shape") == 2 && n >= 12 {
			vrt.Assume(b[0] == 0xa0) // padding bit set
		}
		h, err := ParseRtpHeader(b)
		if err != nil {
			continue
		}
		pkt := RtpPacket{Header: h, Raw: b}
		_ = pkt.Body()
		switch pt {
		case base.AvPacketPtAvc:
			_ = IsAvcBoundary(pkt)
		case base.AvPacketPtHevc:
			_ = IsHevcBoundary(pkt)
		}
		u.Feed(pkt)
	}
	vrt.Cover("end")
}

// VerifC13Rtcp: arbitrary RTCP datagram through the header / sender-report parsers and the RR producer.
func VerifC13Rtcp() {
	b := vrt.Bytes("rtcp", vrt.Param("n"))
	if len(b) >= 2 {
		_ = ParseRtcpHeader(b)
		if b[1] == RtcpPacketTypeSr {
			sr := ParseSr(b)
			p := NewRrProducer(vrt.Param("rate"))
			p.FeedRtpPacket(vrt.U16("seq1"))
			p.FeedRtpPacket(vrt.U16("seq2"))
			_ = p.Produce(sr.GetMiddleNtp())
		}
	}
	vrt.Cover("end")
}
