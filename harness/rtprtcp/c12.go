package rtprtcp

import (
	"github.com/q191201771/lal/pkg/base"
	vrt "github.com/q191201771/lal/pkg/zzvrt"
)

// ---- reference depacketisers (RFC 6184 5.8 FU-A, RFC 7798 4.4.3 FU, RFC 3640 3.3.6 AAC-hbr) ----

// refDepackAvc reassembles one NAL unit from the RTP payloads of one packetised NAL.
func refDepackAvc(ps [][]byte) ([]byte, bool) {
	if len(ps) == 0 || len(ps[0]) < 1 {
		return nil, false
	}
	t := ps[0][0] & 0x1f
	if t >= 1 && t <= 23 {
		if len(ps) != 1 {
			return nil, false
		}
		return ps[0], true
	}
	if t != 28 {
		return nil, false
	}
	var nal []byte
	for i, p := range ps {
		if len(p) < 3 || p[0]&0x1f != 28 {
			return nil, false
		}
		s, e, r := p[1]&0x80 != 0, p[1]&0x40 != 0, p[1]&0x20 != 0
		if r || s != (i == 0) || e != (i == len(ps)-1) || (s && e) {
			return nil, false
		}
		if i == 0 {
			nal = append(nal, p[0]&0xe0|p[1]&0x1f)
		} else if p[0] != ps[0][0] || p[1]&0x1f != ps[0][1]&0x1f {
			return nil, false
		}
		nal = append(nal, p[2:]...)
	}
	return nal, true
}

func refDepackHevc(ps [][]byte) ([]byte, bool) {
	if len(ps) == 0 || len(ps[0]) < 2 {
		return nil, false
	}
	t := ps[0][0] >> 1 & 0x3f
	if t < 48 {
		if len(ps) != 1 {
			return nil, false
		}
		return ps[0], true
	}
	if t != 49 {
		return nil, false
	}
	var nal []byte
	for i, p := range ps {
		if len(p) < 4 || p[0]>>1&0x3f != 49 {
			return nil, false
		}
		s, e := p[2]&0x80 != 0, p[2]&0x40 != 0
		if s != (i == 0) || e != (i == len(ps)-1) || (s && e) {
			return nil, false
		}
		if i == 0 {
			// PayloadHdr carries F, LayerId and TID of the fragmented NAL unit; type comes from the FU header
			nal = append(nal, p[0]&0x81|(p[2]&0x3f)<<1, p[1])
		} else if p[0] != ps[0][0] || p[1] != ps[0][1] || p[2]&0x3f != ps[0][2]&0x3f {
			return nil, false
		}
		nal = append(nal, p[3:]...)
	}
	return nal, true
}

func c12eq(a, b []byte) bool {
	if len(a) != len(b) {
		return false
	}
	for i := range a {
		if a[i] != b[i] {
			return false
		}
	}
	return true
}

// c12Nal returns a symbolic NAL unit of n bytes with a valid header for the codec.
func c12Nal(tag string, n int, hevc bool) []byte {
	nal := vrt.Bytes(tag, n)
	vrt.Assume(nal[0]&0x80 == 0) // forbidden_zero_bit
	if hevc {
		vrt.Assume(nal[0]>>1&0x3f < 48) // a NAL unit type, not an RTP aggregation / fragmentation type
	} else {
		t := nal[0] & 0x1f
		vrt.Assume(t >= 1 && t <= 23)
	}
	return nal
}

// VerifC12PackNal: fragmentation of one NAL unit for every size relative to the payload limit.
func VerifC12PackNal() {
	n, max, hevc := vrt.Param("len"), vrt.Param("max"), vrt.Param("hevc") == 1
	if hevc && n < 2 {
		return
	}
	nal := c12Nal("nal", n, hevc)
	var p *RtpPackerPayloadAvcHevc
	if hevc {
		p = NewRtpPackerPayloadHevc()
	} else {
		p = NewRtpPackerPayloadAvc()
	}
	out := p.PackNal(nal, max)
	vrt.Assert(len(out) >= 1, "at least one payload")
	for _, o := range out {
		vrt.Assert(len(o) <= max && len(o) > 0, "payload respects the payload limit")
	}
	var got []byte
	var ok bool
	if hevc {
		got, ok = refDepackHevc(out)
	} else {
		got, ok = refDepackAvc(out)
	}
	vrt.Assert(ok, "reference depacketiser accepts the fragments (S only first, E only last)")
	vrt.Assert(c12eq(got, nal), "NAL unit returned byte for byte, header bytes included")
	vrt.Cover("end")
}

type c12Sink struct{ pkts []base.AvPacket }

func (s *c12Sink) on(pkt base.AvPacket) { s.pkts = append(s.pkts, pkt) }

// VerifC12Packer: RtpPacker.Pack header fields + lal's own unpacker in arrival order.
func VerifC12Packer() {
	n, max, hevc := vrt.Param("len"), vrt.Param("max"), vrt.Param("hevc") == 1
	nal := c12Nal("nal", n, hevc)
	first := vrt.U16("firstseq")
	ssrc := vrt.U32("ssrc")
	var pp *RtpPackerPayloadAvcHevc
	pt := base.AvPacketPtAvc
	if hevc {
		pp = NewRtpPackerPayloadHevc()
		pt = base.AvPacketPtHevc
	} else {
		pp = NewRtpPackerPayloadAvc()
	}
	packer := NewRtpPacker(pp, 90000, ssrc, func(o *RtpPackerOption) { o.MaxPayloadSize = max; o.FirstSeq = first })
	ts := int64(vrt.Param("ms"))
	pkts := packer.Pack(base.AvPacket{PayloadType: pt, Timestamp: ts, Payload: nal})
	vrt.Assert(len(pkts) >= 1, "packets produced")
	for i := range pkts {
		h, err := ParseRtpHeader(pkts[i].Raw)
		vrt.Assert(err == nil, "header re-parses")
		vrt.Assert(h.Version == 2 && h.Padding == 0 && h.Extension == 0 && h.CsrcCount == 0, "fixed header bits")
		vrt.Assert(h.Seq == first+uint16(i), "sequence numbers increase by one modulo 2^16")
		vrt.Assert((h.Mark == 1) == (i == len(pkts)-1), "marker only on the last packet of the frame")
		vrt.Assert(h.Ssrc == ssrc && h.PacketType == uint8(pt), "ssrc and payload type")
		vrt.Assert(h.Timestamp == pkts[0].Header.Timestamp, "all packets of a frame carry one timestamp")
		vrt.Assert(len(pkts[i].Raw)-12 <= max, "payload limit")
	}
	vrt.Assert(pkts[0].Header.Timestamp == uint32(ts)*90, "timestamp equals media time at the clock rate")

	// lal's unpacker, in-order arrival
	sink := &c12Sink{}
	u := DefaultRtpUnpackerFactory(pt, 90000, 1024, sink.on)
	for i := range pkts {
		rp, err := ParseRtpPacket(pkts[i].Raw)
		vrt.Assert(err == nil, "packet re-parses")
		u.Feed(rp)
	}
	vrt.Assert(len(sink.pkts) == 1, "exactly one unit delivered")
	if len(sink.pkts) == 1 {
		pl := sink.pkts[0].Payload
		vrt.Assert(len(pl) == 4+n, "4-byte length + NAL")
		if len(pl) == 4+n {
			vrt.Assert(int(pl[0])<<24|int(pl[1])<<16|int(pl[2])<<8|int(pl[3]) == n, "length prefix")
			vrt.Assert(c12eq(pl[4:], nal), "lal unpacker returns the NAL byte for byte")
		}
		vrt.Assert(sink.pkts[0].Timestamp == ts, "timestamp back in milliseconds")
	}
	vrt.Cover("end")
}

// VerifC12Reorder: packets of two NAL units after an anchor packet, delivered in an arbitrary
// permutation with one duplicate, all inside the window: output unchanged.
func VerifC12Reorder() {
	n1, n2, max, hevc := vrt.Param("len1"), vrt.Param("len2"), vrt.Param("max"), vrt.Param("hevc") == 1
	win := vrt.Param("win")
	first := vrt.U16("firstseq")
	var pp *RtpPackerPayloadAvcHevc
	pt := base.AvPacketPtAvc
	if hevc {
		pp = NewRtpPackerPayloadHevc()
		pt = base.AvPacketPtHevc
	} else {
		pp = NewRtpPackerPayloadAvc()
	}
	packer := NewRtpPacker(pp, 90000, 1, func(o *RtpPackerOption) { o.MaxPayloadSize = max; o.FirstSeq = first })
	anchor := c12Nal("anchor", 2, hevc)
	nalA := c12Nal("nalA", n1, hevc)
	var all []RtpPacket
	pa := packer.Pack(base.AvPacket{PayloadType: pt, Timestamp: 0, Payload: anchor})
	all = append(all, packer.Pack(base.AvPacket{PayloadType: pt, Timestamp: 40, Payload: nalA})...)
	var nalB []byte
	if n2 > 0 {
		nalB = c12Nal("nalB", n2, hevc)
		all = append(all, packer.Pack(base.AvPacket{PayloadType: pt, Timestamp: 80, Payload: nalB})...)
	}
	k := len(all)
	sink := &c12Sink{}
	u := DefaultRtpUnpackerFactory(pt, 90000, win, sink.on)
	for i := range pa {
		rp, _ := ParseRtpPacket(pa[i].Raw)
		u.Feed(rp)
	}
	vrt.Assert(len(sink.pkts) == 1, "anchor delivered")
	// symbolic arrival order: a permutation of 0..k-1 plus one duplicate at a symbolic position
	used := make([]bool, k)
	order := make([]int, 0, k+1)
	for i := 0; i < k; i++ {
		c := vrt.Pick(vrt.Range("perm", 0, k-1))
		vrt.Assume(!used[c])
		used[c] = true
		order = append(order, c)
	}
	dupAt := vrt.Pick(vrt.Range("dupAt", 0, k))
	dupOf := vrt.Pick(vrt.Range("dupOf", 0, k-1))
	for i := 0; i <= k; i++ {
		if i == dupAt {
			rp, _ := ParseRtpPacket(all[dupOf].Raw)
			u.Feed(rp)
		}
		if i < k {
			rp, _ := ParseRtpPacket(all[order[i]].Raw)
			u.Feed(rp)
		}
	}
	want := 2
	if n2 > 0 {
		want = 3
	}
	vrt.Assert(len(sink.pkts) == want, "every unit delivered exactly once")
	if len(sink.pkts) == want {
		vrt.Assert(len(sink.pkts[1].Payload) == 4+n1 && c12eq(sink.pkts[1].Payload[4:], nalA), "first unit intact and in order")
		if n2 > 0 {
			vrt.Assert(len(sink.pkts[2].Payload) == 4+n2 && c12eq(sink.pkts[2].Payload[4:], nalB), "second unit intact and in order")
		}
	}
	vrt.Cover("end")
}

// VerifC12Audio: AAC (RFC 3640 hbr) / G.711 / Opus frames through packer and lal's unpacker.
func VerifC12Audio() {
	n, kind := vrt.Param("len"), vrt.Param("kind")
	frame := vrt.Bytes("frame", n)
	first := vrt.U16("firstseq")
	var pp IRtpPackerPayload
	var pt base.AvPacketPt
	rate := 8000
	switch kind {
	case 0:
		pp, pt, rate = NewRtpPackerPayloadAac(), base.AvPacketPtAac, 48000
	case 1:
		pp, pt = NewRtpPackerPayloadPcm(), base.AvPacketPtG711A
	case 2:
		pp, pt, rate = NewRtpPackerPayloadOpus(), base.AvPacketPtOpus, 48000
	}
	packer := NewRtpPacker(pp, rate, 7, func(o *RtpPackerOption) { o.FirstSeq = first; o.MaxPayloadSize = 1200 })
	pkts := packer.Pack(base.AvPacket{PayloadType: pt, Timestamp: 20, Payload: frame})
	vrt.Assert(len(pkts) == 1, "one packet per audio frame")
	if kind == 0 {
		// RFC 3640 reference: AU-headers-length 16 bits, one AU header: 13-bit size + 3-bit index
		b := pkts[0].Raw[12:]
		vrt.Assert(len(b) == 4+n && b[0] == 0 && b[1] == 16, "AU-headers-length = 16 bits")
		if len(b) == 4+n {
			vrt.Assert(int(b[2])<<5|int(b[3])>>3 == n && b[3]&7 == 0, "AU size field equals frame length, index 0")
			vrt.Assert(c12eq(b[4:], frame), "AU payload")
		}
	} else {
		vrt.Assert(c12eq(pkts[0].Raw[12:], frame), "raw payload")
	}
	vrt.Assert(pkts[0].Header.Mark == 1 && pkts[0].Header.Seq == first, "marker and sequence")
	sink := &c12Sink{}
	u := DefaultRtpUnpackerFactory(pt, rate, 1024, sink.on)
	rp, err := ParseRtpPacket(pkts[0].Raw)
	vrt.Assert(err == nil, "re-parse")
	u.Feed(rp)
	vrt.Assert(len(sink.pkts) == 1 && c12eq(sink.pkts[0].Payload, frame), "lal unpacker returns the frame byte for byte")
	vrt.Assert(len(sink.pkts) == 1 && sink.pkts[0].Timestamp == 20, "timestamp preserved")
	vrt.Cover("end")
}

// VerifC12Seq: modular sequence algebra for all 16-bit values.
func VerifC12Seq() {
	a, b := vrt.U16("a"), vrt.U16("b")
	ca, cb := CompareSeq(a, b), CompareSeq(b, a)
	vrt.Assert(ca >= -1 && ca <= 1, "CompareSeq range")
	vrt.Assert((ca == 0) == (a == b), "CompareSeq zero iff equal")
	if a-b != 32768 {
		vrt.Assert(ca == -cb, "CompareSeq antisymmetric")
	}
	k := vrt.U16("k")
	vrt.Assume(k < 16384)
	vrt.Assert(SubSeq(a+k, a) == int(k), "SubSeq(a+k,a)=k for 0<=k<16384")
	vrt.Assert(SubSeq(a, a+k) == -int(k), "SubSeq(a,a+k)=-k")
	if k > 0 {
		vrt.Assert(CompareSeq(a+k, a) == 1 && CompareSeq(a, a+k) == -1, "CompareSeq agrees with SubSeq inside the window")
	}
	vrt.Cover("end")
}

// VerifC12Timestamp: RTP timestamp = media time at the clock rate (float64 path of RtpPacker.Pack),
// decided through the FP theory on a reduced range of media times.
func VerifC12Timestamp() {
	rate := vrt.Param("rate")
	bits := vrt.Param("bits")
	ms := vrt.U32("ms")
	vrt.Assume(ms < 1<<uint(bits))
	packer := NewRtpPacker(NewRtpPackerPayloadPcm(), rate, 7, func(o *RtpPackerOption) { o.FirstSeq = 0 })
	pkts := packer.Pack(base.AvPacket{PayloadType: base.AvPacketPtG711A, Timestamp: int64(ms), Payload: []byte{1}})
	vrt.Assert(len(pkts) == 1, "one packet")
	got := pkts[0].Header.Timestamp
	// exact value floor(ms*rate/1000), allowing one tick of rounding
	d := int64(got)*1000 - int64(ms)*int64(rate)
	vrt.Assert(vrt.And(d > -1000, d < 1000), "timestamp equals media time at the clock rate within one tick")
	vrt.Cover("end")
}
