package rtmp

import (
	"github.com/q191201771/lal/pkg/base"
	vrt "github.com/q191201771/lal/pkg/zzvrt"
)

func c08Header() base.RtmpHeader {
	h := base.RtmpHeader{
		Csid:         vrt.Range("csid", 2, 65599),
		MsgLen:       vrt.U32("msglen"),
		MsgTypeId:    vrt.U8("typ"),
		MsgStreamId:  int(vrt.U32("msid")),
		TimestampAbs: vrt.U32("ts"),
	}
	vrt.Assume(h.MsgLen < 1<<24)
	return h
}

// VerifC08Header: the chunk header kernel for every header value.
// mode 0: first chunk of a message (no previous header): type 0 chunk.
// mode 1: first chunk followed by a continuation chunk (previous header is the same header): type 3.
func VerifC08Header() {
	mode := vrt.Param("mode")
	h := c08Header()
	out := make([]byte, maxHeaderSize)
	n := calcHeader(&h, nil, out)
	vrt.Assert(n >= 1 && n <= maxHeaderSize, "header size within maxHeaderSize")
	// a zero-payload view: parse just the header with a reader whose message length is forced to 0 payload bytes
	r := &refChunkReader{chunkSize: 0}
	c := r.readChunk(out[:n])
	vrt.Assert(c == n, "reference reader consumes exactly the first-chunk header")
	s := r.stream(h.Csid)
	vrt.Assert(s.used, "chunk stream id decodes")
	vrt.Assert(s.ts == h.TimestampAbs, "absolute timestamp decodes")
	vrt.Assert(s.length == h.MsgLen, "message length decodes")
	vrt.Assert(s.typ == h.MsgTypeId, "type id decodes")
	vrt.Assert(s.msid == uint32(h.MsgStreamId), "stream id decodes")
	if mode == 1 {
		out2 := make([]byte, maxHeaderSize)
		n2 := calcHeader(&h, &h, out2)
		vrt.Assert(n2 >= 1 && n2 <= maxHeaderSize, "continuation header size")
		c2 := r.readChunk(out2[:n2])
		vrt.Assert(c2 == n2, "reference reader consumes exactly the continuation header")
		vrt.Assert(out2[0]>>6 == 3, "continuation chunk is type 3")
		vrt.Assert(s.ts == h.TimestampAbs && s.length == h.MsgLen && s.typ == h.MsgTypeId && s.msid == uint32(h.MsgStreamId), "fields unchanged by continuation")
		vrt.Assert(len(r.cs) == 1, "same chunk stream")
	}
	vrt.Cover("end")
}

// sliceReader delivers a byte slice through io.Reader in fragments of at most frag bytes.
type sliceReader struct {
	b    []byte
	frag int
}

func (r *sliceReader) Read(p []byte) (int, error) {
	if len(r.b) == 0 {
		return 0, errEOFVerif
	}
	n := len(p)
	if n > len(r.b) {
		n = len(r.b)
	}
	if r.frag > 0 && n > r.frag {
		n = r.frag
	}
	copy(p, r.b[:n])
	r.b = r.b[n:]
	return n, nil
}

type verifErr struct{ s string }

func (e *verifErr) Error() string { return e.s }

var errEOFVerif = &verifErr{"verif EOF"}

// VerifC08Divide: message2Chunks for a symbolic message of len bytes at chunk size cs,
// read back by the reference reader and by lal's own ChunkComposer.
func VerifC08Divide() {
	n := vrt.Param("len")
	cs := vrt.Param("cs")
	h := c08Header()
	vrt.Assume(h.MsgLen == uint32(n))
	payload := vrt.Bytes("payload", n)
	out := message2Chunks(payload, &h, nil, cs)

	// (i) reference reader
	r := &refChunkReader{chunkSize: cs}
	ok := r.readAll(out)
	vrt.Assert(ok, "reference reader parses the whole output")
	vrt.Assert(len(r.out) == 1, "reference reader yields exactly one message")
	if len(r.out) == 1 {
		m := r.out[0]
		vrt.Assert(m.csid == h.Csid && m.typ == h.MsgTypeId && m.msid == uint32(h.MsgStreamId) && m.length == h.MsgLen, "ref: header fields")
		vrt.Assert(m.ts == h.TimestampAbs, "ref: absolute timestamp")
		vrt.Assert(len(m.payload) == n, "ref: payload length")
		for i := 0; i < n && i < len(m.payload); i++ {
			vrt.Assert(m.payload[i] == payload[i], "ref: payload bytes")
		}
	}

	// (ii) lal's own reader (an aggregate message is split into sub-messages by design: see VerifC08Compose)
	if h.MsgTypeId == base.RtmpTypeIdAggregateMessage {
		vrt.Cover("end")
		return
	}
	c := NewChunkComposer()
	c.SetPeerChunkSize(uint32(cs))
	got := 0
	rd := &sliceReader{b: out, frag: vrt.Param("frag")}
	err := c.RunLoop(rd, func(stream *Stream) error {
		got++
		vrt.Assert(stream.header.Csid == h.Csid && stream.header.MsgTypeId == h.MsgTypeId && stream.header.MsgStreamId == int(uint32(h.MsgStreamId)) && stream.header.MsgLen == h.MsgLen, "lal: header fields")
		vrt.Assert(stream.header.TimestampAbs == h.TimestampAbs, "lal: absolute timestamp")
		p := stream.msg.buff.Bytes()
		vrt.Assert(len(p) == n, "lal: payload length")
		for i := 0; i < n && i < len(p); i++ {
			vrt.Assert(p[i] == payload[i], "lal: payload bytes")
		}
		return nil
	})
	vrt.Assert(err == errEOFVerif, "lal: reader stops only at end of input")
	vrt.Assert(len(rd.b) == 0, "lal: reader consumes exactly the produced bytes")
	vrt.Assert(got == 1, "lal: exactly one message")
	vrt.Cover("end")
}

// ---- reference chunk ENCODER (RTMP 1.0 section 5.3.1): emits any legal chunking ----

func refBasicHeader(out []byte, format uint8, csid int) []byte {
	switch {
	case csid <= 63:
		return append(out, format<<6|uint8(csid))
	case csid <= 319:
		return append(out, format<<6, uint8(csid-64))
	default:
		return append(out, format<<6|1, uint8((csid-64)&0xff), uint8((csid-64)>>8))
	}
}

// refChunk emits one chunk. tsField is the absolute timestamp (format 0) or the delta (formats 1, 2);
// ext tells whether the chunk stream is in extended-timestamp mode (value repeated on format 3).
func refChunk(out []byte, format uint8, csid int, tsField uint32, ext bool, extVal uint32, length uint32, typ uint8, msid uint32, payload []byte) []byte {
	out = refBasicHeader(out, format, csid)
	if format <= 2 {
		f := tsField
		if f >= 0xFFFFFF {
			f = 0xFFFFFF
		}
		out = append(out, byte(f>>16), byte(f>>8), byte(f))
	}
	if format <= 1 {
		out = append(out, byte(length>>16), byte(length>>8), byte(length), typ)
	}
	if format == 0 {
		out = append(out, byte(msid), byte(msid>>8), byte(msid>>16), byte(msid>>24))
	}
	if (format <= 2 && tsField >= 0xFFFFFF) || (format == 3 && ext) {
		v := tsField
		if format == 3 {
			v = extVal
		}
		out = append(out, byte(v>>24), byte(v>>16), byte(v>>8), byte(v))
	}
	return append(out, payload...)
}

type c08Got struct {
	csid    int
	typ     uint8
	msid    int
	ts      uint32
	payload []byte
}

func c08Run(stream []byte, peerChunk uint32) ([]c08Got, error) {
	c := NewChunkComposer()
	c.SetPeerChunkSize(peerChunk)
	var got []c08Got
	rd := &sliceReader{b: stream}
	err := c.RunLoop(rd, func(s *Stream) error {
		got = append(got, c08Got{csid: s.header.Csid, typ: s.header.MsgTypeId, msid: s.header.MsgStreamId, ts: s.header.TimestampAbs, payload: append([]byte{}, s.msg.buff.Bytes()...)})
		return nil
	})
	return got, err
}

func c08Same(a, b []byte) bool {
	if len(a) != len(b) {
		return false
	}
	same := true
	for i := range a {
		same = vrt.And(same, a[i] == b[i])
	}
	return same
}

// VerifC08Compose: lal's reader on specification-conforming chunkings produced by the reference encoder.
// scen 0: Set Chunk Size between the chunks of a partially received message (interleaved control stream)
// scen 1: two messages interleaved chunk by chunk on two chunk streams, absolute timestamps (one extended)
// scen 2: three messages on one chunk stream using formats 0, 1, 2 and 3 with deltas
func VerifC08Compose() {
	var w []byte
	switch vrt.Param("scen") {
	case 0:
		la := vrt.Param("la")
		ns := vrt.Param("ns")
		a := vrt.Bytes("a", la)
		ts := vrt.U32("ts")
		vrt.Assume(ts < 0xFFFFFF)
		w = refChunk(w, 0, 3, ts, false, 0, uint32(la), 9, 1, a[:2])
		// Set Chunk Size (type 1) on chunk stream 2, itself chunked at the current size 2
		scs := []byte{byte(ns >> 24), byte(ns >> 16), byte(ns >> 8), byte(ns)}
		w = refChunk(w, 0, 2, 0, false, 0, 4, 1, 0, scs[:2])
		w = refChunk(w, 3, 2, 0, false, 0, 0, 0, 0, scs[2:])
		// rest of A at the new chunk size
		rest := a[2:]
		for len(rest) > 0 {
			k := len(rest)
			if k > ns {
				k = ns
			}
			w = refChunk(w, 3, 3, 0, false, 0, 0, 0, 0, rest[:k])
			rest = rest[k:]
		}
		got, err := c08Run(w, 2)
		vrt.Assert(err == errEOFVerif, "reader consumes the stream to its end")
		vrt.Assert(len(got) == 2, "two messages: Set Chunk Size, then the interrupted message")
		if len(got) == 2 {
			vrt.Assert(got[0].typ == 1 && got[0].csid == 2, "control message first")
			vrt.Assert(got[1].typ == 9 && got[1].csid == 3 && got[1].ts == ts && got[1].msid == 1 && c08Same(got[1].payload, a), "interrupted message reassembled identically")
		}
	case 1:
		cs := 3
		a, b := vrt.Bytes("a", 5), vrt.Bytes("b", 4)
		tsa, tsb := vrt.U32("tsa"), vrt.U32("tsb")
		vrt.Assume(tsa >= 0xFFFFFF) // extended
		vrt.Assume(tsb < 0xFFFFFF)
		csb := vrt.Range("csidb", 64, 65599)
		w = refChunk(w, 0, 5, tsa, true, tsa, 5, 8, 1, a[:cs])
		w = refChunk(w, 0, csb, tsb, false, 0, 4, 9, 7, b[:cs])
		w = refChunk(w, 3, 5, 0, true, tsa, 0, 0, 0, a[cs:])
		w = refChunk(w, 3, csb, 0, false, 0, 0, 0, 0, b[cs:])
		got, err := c08Run(w, uint32(cs))
		vrt.Assert(err == errEOFVerif && len(got) == 2, "two interleaved messages")
		if len(got) == 2 {
			vrt.Assert(got[0].csid == 5 && got[0].typ == 8 && got[0].ts == tsa && got[0].msid == 1 && c08Same(got[0].payload, a), "first stream's message")
			vrt.Assert(got[1].csid == csb && got[1].typ == 9 && got[1].ts == tsb && got[1].msid == 7 && c08Same(got[1].payload, b), "second stream's message")
		}
	case 2:
		cs := 4
		m1, m2, m3 := vrt.Bytes("m1", 3), vrt.Bytes("m2", 6), vrt.Bytes("m3", 6)
		t0 := vrt.U32("t0")
		d1, d2 := vrt.U32("d1"), vrt.U32("d2")
		vrt.Assume(t0 < 0xFFFFFF && d1 < 0xFFFFFF && d2 < 0xFFFFFF)
		w = refChunk(w, 0, 6, t0, false, 0, 3, 9, 1, m1)
		w = refChunk(w, 1, 6, d1, false, 0, 6, 8, 0, m2[:cs]) // new length and type, same stream id
		w = refChunk(w, 3, 6, 0, false, 0, 0, 0, 0, m2[cs:])
		w = refChunk(w, 2, 6, d2, false, 0, 0, 0, 0, m3[:cs]) // same length and type, new delta
		w = refChunk(w, 3, 6, 0, false, 0, 0, 0, 0, m3[cs:])
		got, err := c08Run(w, uint32(cs))
		vrt.Assert(err == errEOFVerif && len(got) == 3, "three messages")
		if len(got) == 3 {
			vrt.Assert(got[0].ts == t0 && got[0].typ == 9 && c08Same(got[0].payload, m1), "format 0 message")
			vrt.Assert(got[1].ts == t0+d1 && got[1].typ == 8 && got[1].msid == 1 && c08Same(got[1].payload, m2), "format 1 message: delta added, stream id kept")
			vrt.Assert(got[2].ts == t0+d1+d2 && got[2].typ == 8 && c08Same(got[2].payload, m3), "format 2 message: delta added, length and type kept")
		}
	case 3:
		// a format 3 chunk that starts a new message repeats the preceding delta (RTMP 5.3.1.2.4)
		cs := 4
		m1, m2, m3 := vrt.Bytes("m1", 6), vrt.Bytes("m2", 6), vrt.Bytes("m3", 6)
		t0, d := vrt.U32("t0"), vrt.U32("d")
		vrt.Assume(t0 < 0xFFFFFF && d < 0xFFFFFF)
		w = refChunk(w, 0, 6, t0, false, 0, 6, 9, 1, m1[:cs])
		w = refChunk(w, 3, 6, 0, false, 0, 0, 0, 0, m1[cs:])
		w = refChunk(w, 2, 6, d, false, 0, 0, 0, 0, m2[:cs])
		w = refChunk(w, 3, 6, 0, false, 0, 0, 0, 0, m2[cs:])
		w = refChunk(w, 3, 6, 0, false, 0, 0, 0, 0, m3[:cs]) // new message, everything as before including the delta
		w = refChunk(w, 3, 6, 0, false, 0, 0, 0, 0, m3[cs:])
		got, err := c08Run(w, uint32(cs))
		vrt.Assert(err == errEOFVerif && len(got) == 3, "three messages")
		if len(got) == 3 {
			vrt.Assert(got[1].ts == t0+d && c08Same(got[1].payload, m2), "format 2 message: delta added")
			vrt.Assert(got[2].ts == t0+d+d && got[2].typ == 9 && got[2].msid == 1 && c08Same(got[2].payload, m3), "format 3 message start: the preceding delta is applied again")
		}
	case 4:
		// a format 3 chunk starting a new message right after a format 0 message: the delta is that message's timestamp
		cs := 8
		m1, m2 := vrt.Bytes("m1", 3), vrt.Bytes("m2", 3)
		t0 := vrt.U32("t0")
		vrt.Assume(t0 < 0x7FFFFF)
		w = refChunk(w, 0, 6, t0, false, 0, 3, 9, 1, m1)
		w = refChunk(w, 3, 6, 0, false, 0, 0, 0, 0, m2)
		got, err := c08Run(w, uint32(cs))
		vrt.Assert(err == errEOFVerif && len(got) == 2, "two messages")
		if len(got) == 2 {
			vrt.Assert(got[1].ts == t0+t0 && c08Same(got[1].payload, m2), "format 3 after format 0: delta equals the format 0 timestamp")
		}
	}
	vrt.Cover("end")
}
