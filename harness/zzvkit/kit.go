// Package zzvkit holds fakes shared by the verification harnesses (ordinary Go: they run
// natively for replay and symbolically under gosym).
package zzvkit

import (
	"net"
	"time"

	"github.com/q191201771/naza/pkg/connection"
)

type Addr struct{}

func (Addr) Network() string { return "tcp" }
func (Addr) String() string  { return "127.0.0.1:1" }

type connErr struct{ s string }

func (e *connErr) Error() string { return e.s }

var (
	ErrRejected = &connErr{"zzvkit: write rejected (queue full)"}
	ErrEOF      = &connErr{"zzvkit: EOF"}
)

// Conn is a fake net.Conn / naza connection.Connection that records every accepted write as one unit.
type Conn struct {
	chanSize, bufSize, readTo, writeTo int // properties set through Mod* (once each, as in naza)
	Writes [][]byte
	Calls  int
	// Reject, if set, decides per write call whether it is rejected (fault schedule).
	Reject func(call int) bool
	In     []byte
	// Frag limits how many bytes one Read returns (0 = as many as requested).
	Frag   int
	Closed int
}

func (c *Conn) Write(b []byte) (int, error) {
	i := c.Calls
	c.Calls++
	if c.Reject != nil && c.Reject(i) {
		return 0, ErrRejected
	}
	cp := make([]byte, len(b))
	copy(cp, b)
	c.Writes = append(c.Writes, cp)
	return len(b), nil
}

func (c *Conn) Writev(bs net.Buffers) (int, error) {
	i := c.Calls
	c.Calls++
	if c.Reject != nil && c.Reject(i) {
		return 0, ErrRejected
	}
	var cp []byte
	for _, b := range bs {
		cp = append(cp, b...)
	}
	c.Writes = append(c.Writes, cp)
	// net.Buffers.WriteTo consumes the buffers it wrote: the elements of the caller's slice are set to nil
	// (the real connection does exactly this, directly or from its writer goroutine)
	for i := range bs {
		bs[i] = nil
	}
	return len(cp), nil
}

// All returns the concatenation of every accepted write.
func (c *Conn) All() []byte {
	var out []byte
	for _, w := range c.Writes {
		out = append(out, w...)
	}
	return out
}

func (c *Conn) Read(p []byte) (int, error) {
	if len(c.In) == 0 {
		return 0, ErrEOF
	}
	n := len(p)
	if n > len(c.In) {
		n = len(c.In)
	}
	if c.Frag > 0 && n > c.Frag {
		n = c.Frag
	}
	copy(p, c.In[:n])
	c.In = c.In[n:]
	return n, nil
}

func (c *Conn) ReadAtLeast(buf []byte, min int) (int, error) {
	n := 0
	for n < min {
		k, err := c.Read(buf[n:])
		n += k
		if err != nil {
			return n, err
		}
	}
	return n, nil
}

func (c *Conn) ReadLine() ([]byte, bool, error)      { return nil, false, ErrEOF }
func (c *Conn) Close() error                         { c.Closed++; return nil }
func (c *Conn) LocalAddr() net.Addr                  { return Addr{} }
func (c *Conn) RemoteAddr() net.Addr                 { return Addr{} }
func (c *Conn) SetDeadline(t time.Time) error        { return nil }
func (c *Conn) SetReadDeadline(t time.Time) error    { return nil }
func (c *Conn) SetWriteDeadline(t time.Time) error   { return nil }
func (c *Conn) Flush() error                         { return nil }
func (c *Conn) Done() <-chan error                   { return nil }

// The Mod* methods follow naza's connection: each property may be set once; a second call panics
// ("naza.connection: using in a wrong way").
var errConnectionPanic = &connErr{"naza.connection: using in a wrong way"}

func (c *Conn) ModWriteChanSize(n int) {
	if c.chanSize > 0 {
		panic(errConnectionPanic)
	}
	c.chanSize = n
}
func (c *Conn) ModWriteBufSize(n int) {
	if c.bufSize > 0 {
		panic(errConnectionPanic)
	}
	c.bufSize = n
}
func (c *Conn) ModReadTimeoutMs(n int) {
	if c.readTo > 0 {
		panic(errConnectionPanic)
	}
	c.readTo = n
}
func (c *Conn) ModWriteTimeoutMs(n int) {
	if c.writeTo > 0 {
		panic(errConnectionPanic)
	}
	c.writeTo = n
}
func (c *Conn) GetStat() connection.Stat              { return connection.Stat{} }

var _ connection.Connection = (*Conn)(nil)
var _ net.Conn = (*Conn)(nil)
