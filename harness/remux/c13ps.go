package remux

import (
	"github.com/q191201771/lal/pkg/base"
	"github.com/q191201771/lal/pkg/gb28181"
	vrt "github.com/q191201771/lal/pkg/zzvrt"
)

func c13Pts(v uint64) []byte {
	return []byte{0x21 | byte(v>>30&7)<<1, byte(v >> 22), byte(v>>15&0x7f)<<1 | 1, byte(v >> 7), byte(v&0x7f)<<1 | 1}
}

func c13Pes(sid byte, pts uint64, es []byte) []byte {
	l := 3 + 5 + len(es)
	b := []byte{0, 0, 1, sid, byte(l >> 8), byte(l), 0x80, 0x80, 5}
	b = append(b, c13Pts(pts)...)
	return append(b, es...)
}

// VerifC13PsStream: a GB28181 sender that gets past the framing (valid program stream map, valid PES
// headers) and then sends arbitrary elementary-stream bytes. Three PES packets with different PTS per
// track make the demuxer flush the arbitrary bytes through its start-code splitter into the RTMP remuxer
// as the group wires them (Annex-B video, ADTS audio). Nothing panics.
func VerifC13PsStream() {
	n := 0
	rm := NewAvPacket2RtmpRemuxer().WithOnRtmpMsg(func(msg base.RtmpMsg) { n++ })
	rm.WithOption(func(option *base.AvPacketStreamOption) {
		option.VideoFormat = base.AvPacketStreamVideoFormatAnnexb
		option.AudioFormat = base.AvPacketStreamAudioFormatAdtsAac
	})
	un := gb28181.NewPsUnpacker().WithOnAvPacket(func(pkt *base.AvPacket) { rm.OnAvPacket(*pkt) })
	vt, at := byte(vrt.Param("vt")), byte(vrt.Param("at"))
	es := []byte{vt, 0xe0, 0, 0, at, 0xc0, 0, 0}
	psm := []byte{0, 0, 1, 0xbc, 0, byte(10 + len(es)), 0xe0, 0xff, 0, 0, 0, byte(len(es))}
	psm = append(append(psm, es...), 0, 0, 0, 0)
	_ = un.FeedRtpBody(psm, 0)
	sid := byte(0xe0)
	if vrt.Param("track") == 1 {
		sid = 0xc0
	}
	// optional start code in front of the arbitrary bytes so that they reach the NAL-level code
	pre := [][]byte{nil, {0, 0, 1}, {0, 0, 0, 1}}[vrt.Param("sc")]
	for k := 0; k < 3; k++ {
		body := append(append([]byte{}, pre...), vrt.Bytes("es", vrt.Param("n"))...)
		_ = un.FeedRtpBody(c13Pes(sid, uint64(90000+3600*k), body), uint32(90000+3600*k))
	}
	vrt.Cover("end")
}
