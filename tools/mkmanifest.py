#!/usr/bin/env python3
"""Regenerates /verif/MANIFEST.json from checks/*.json and tools/manifest_meta.json."""
import json, glob, os
root = os.path.dirname(os.path.dirname(os.path.abspath(__file__)))
meta = json.load(open(os.path.join(root, 'tools', 'manifest_meta.json')))
props = [json.loads(l)['id'] for l in open(os.path.join(root, 'properties.jsonl'))]
checks = []
claimed = []
for pid in props:
    spec = os.path.join(root, 'checks', pid + '.json')
    if not os.path.exists(spec) or pid not in meta['claimed']:
        continue
    m = meta['claimed'][pid]
    claimed.append(pid)
    checks.append({
        "property_id": pid,
        "quick_cmd": "./check %s quick" % pid,
        "thorough_cmd": "./check %s thorough" % pid,
        "evidence_file": "/verif/evidence/%s.json" % pid,
        "replay_cmd_template": "./check %s --replay {path}" % pid,
        "engine": "gosym",
        "level_claimed": {"category": "model_checking", "text": m['text'], "design_ref": m.get('design_ref', 'DESIGN.md section 4, ' + pid)},
        "level_note": m['note'],
        "technique": m.get('technique', "bounded symbolic execution of the real functions (go/ssa -> SMT-LIB2 bit-vectors, z3), solver verdict per obligation, native replay of counterexamples"),
    })
na = [{"property_id": p, "reason": meta['not_applicable'].get(p, "check not built yet (see DESIGN.md section 7 for the build order)")} for p in props if p not in claimed]
man = {
    "version": 1,
    "setup_cmd": "cd /verif/engine && GOFLAGS=-mod=mod GOPROXY=off GOSUMDB=off GOTOOLCHAIN=local go build -o /verif/bin/gosym ./cmd/gosym",
    "hooks": {
        "guard": "verif",
        "enable": "no source hooks: harness files are injected into package directories with go/packages Overlay (engine) and `go test -overlay` (native replay); /repo is never modified by a check",
        "baseline_off_cmd": "cd /repo && GOFLAGS=-mod=mod go test -vet=off -count=1 -timeout 25m ./...",
        "source_commits": [],
        "add_only": True,
    },
    "engines": [{"name": "gosym", "path": "/verif/engine", "serves_properties": claimed,
                 "kind_free_text": "Go SSA -> SMT-LIB2 bounded symbolic executor written for this task (go/ssa v0.29.0, bit-vector terms, z3 4.8.12 over a pipe); harnesses are in-package Go functions under /verif/harness injected by overlay"}],
    "checks": checks,
    "not_applicable": na,
    "notes": meta.get('notes', ''),
}
json.dump(man, open(os.path.join(root, 'MANIFEST.json'), 'w'), indent=1)
print("claimed:", claimed)
