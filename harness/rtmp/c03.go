package rtmp

import (
	"bytes"

	"github.com/q191201771/lal/pkg/base"
	vkit "github.com/q191201771/lal/pkg/zzvkit"
	vrt "github.com/q191201771/lal/pkg/zzvrt"
)

// c03RtmpObs plays logic.ServerManager for one RTMP server: a publisher is admitted iff its stream name has
// no publisher; every admission and every reported departure is recorded with the stream name the session
// carries at that moment (application and stream name: that is how ServerManager finds the group).
type c03RtmpObs struct {
	pubs     map[string]bool
	pubStart map[string]int
	pubStop  map[string]int
	subStart map[string]int
	subStop  map[string]int
}

func (o *c03RtmpObs) OnRtmpConnect(session *ServerSession, opa ObjectPairArray) {}
func (o *c03RtmpObs) OnNewRtmpPubSession(session *ServerSession) error {
	k := session.AppName() + "/" + session.StreamName()
	if o.pubs[k] {
		return base.ErrDupInStream
	}
	o.pubs[k] = true
	o.pubStart[k]++
	return nil
}
func (o *c03RtmpObs) OnDelRtmpPubSession(session *ServerSession) {
	k := session.AppName() + "/" + session.StreamName()
	o.pubStop[k]++
	delete(o.pubs, k)
}
func (o *c03RtmpObs) OnNewRtmpSubSession(session *ServerSession) error {
	o.subStart[session.AppName()+"/"+session.StreamName()]++
	return nil
}
func (o *c03RtmpObs) OnDelRtmpSubSession(session *ServerSession) {
	o.subStop[session.AppName()+"/"+session.StreamName()]++
}

// VerifC03RtmpConn: one RTMP connection: simple handshake, connect, createStream, then k commands chosen
// by the solver among publish a, publish b, play a, play b, deleteStream, connect to another application (well-formed commands in an order
// no well-behaved client would use), then the connection ends. Every publisher and subscriber the server
// admitted is reported gone exactly once, under the name it was admitted with; nothing else is reported gone.
func VerifC03RtmpConn() {
	k := vrt.Param("k")
	obs := &c03RtmpObs{pubs: map[string]bool{}, pubStart: map[string]int{}, pubStop: map[string]int{}, subStart: map[string]int{}, subStop: map[string]int{}}
	if vrt.Param("busy") == 1 {
		obs.pubs["live/a"] = true // another connection already publishes stream a
	}
	srv := NewServer("127.0.0.1:0", obs)
	in := make([]byte, 1537+1536) // C0 C1 (version 0: simple handshake) and C2
	in[0] = 3
	msg := func(typ uint8, msid uint32, p []byte) {
		// one format 0 chunk per message (all payloads are below the default chunk size of 128)
		in = refChunk(in, 0, 3, 0, false, 0, uint32(len(p)), typ, msid, p)
	}
	msg(20, 0, c04Cmd("connect", 1, func(b *bytes.Buffer) {
		_ = Amf0.WriteObject(b, ObjectPairArray{{Key: "app", Value: "live"}, {Key: "tcUrl", Value: "rtmp://h/live"}})
	}))
	msg(20, 0, c04Cmd("createStream", 2, func(b *bytes.Buffer) { _ = Amf0.WriteNull(b) }))
	for i := 0; i < k; i++ {
		var name, stream string
		switch vrt.Pick(vrt.Range("cmd", 0, 5)) {
		case 0:
			name, stream = "publish", "a"
		case 1:
			name, stream = "publish", "b"
		case 2:
			name, stream = "play", "a"
		case 3:
			name, stream = "play", "b"
		case 4:
			name = "deleteStream"
		case 5: // a second connect, to another application
			msg(20, 0, c04Cmd("connect", float64(3+i), func(b *bytes.Buffer) {
				_ = Amf0.WriteObject(b, ObjectPairArray{{Key: "app", Value: "other"}, {Key: "tcUrl", Value: "rtmp://h/other"}})
			}))
			continue
		}
		msg(20, 1, c04Cmd(name, float64(3+i), func(b *bytes.Buffer) {
			_ = Amf0.WriteNull(b)
			if stream != "" {
				_ = Amf0.WriteString(b, stream)
				if name == "publish" {
					_ = Amf0.WriteString(b, "live")
				}
			} else {
				_ = Amf0.WriteNumber(b, 1)
			}
		}))
	}
	conn := &vkit.Conn{In: in}
	srv.handleTcpConnect(conn)
	for _, n := range []string{"live/a", "live/b", "other/a", "other/b"} {
		vrt.Assert(obs.pubStop[n] == obs.pubStart[n], "every admitted publisher is reported gone exactly once, under the name it was admitted with")
		vrt.Assert(obs.subStop[n] == obs.subStart[n], "every admitted subscriber is reported gone exactly once, under the name it was admitted with")
	}
	vrt.Cover("end")
}
