package logic

import (
	"fmt"

	"github.com/q191201771/lal/pkg/rtmp"
	vrt "github.com/q191201771/lal/pkg/zzvrt"
)

// VerifC17Push: relay push. A group with n configured push targets goes through a symbolic history of
// publisher arrival / departure, ticks, and attempt outcomes (the attempt of target j attached / ended).
// Model per target: idle -> in flight (one goroutine) -> attached -> (closing ->) idle. An attempt is opened exactly
// when a publisher is accepted or a tick finds a publisher and the target idle; never two at once; a
// failed target is retried on a later tick; when the publisher leaves every attached session is closed.
func VerifC17Push() {
	n := vrt.Param("targets")
	steps := vrt.Param("steps")
	cfg := kitConfig()
	cfg.RelayPushConfig.Enable = vrt.Param("enable") == 1
	addr := vrt.BlackholeAddr()
	urls := make([]string, n)
	for j := 0; j < n; j++ {
		// distinct targets: same listener, different host spelling is not possible; use distinct ports only
		// symbolically - natively all attempts go to the one blackhole listener through distinct app names
		cfg.RelayPushConfig.AddrList = append(cfg.RelayPushConfig.AddrList, fmt.Sprintf("%s/t%d", addr, j))
		urls[j] = fmt.Sprintf("rtmp://%s/t%d/live/s1", addr, j)
	}
	g, _ := kitGroup(cfg)
	const (
		idle = iota
		inflight
		attached
		closing // the group closed the attached session (publisher left); its goroutine has not reported the end yet
	)
	state := make([]int, n)
	sess := make([]*rtmp.PushSession, n)
	var pub *rtmp.ServerSession
	spawns := 0
	start := func() {
		if !cfg.RelayPushConfig.Enable || pub == nil {
			return
		}
		for j := range state {
			if state[j] == idle {
				state[j] = inflight
				spawns++
			}
		}
	}
	for s := 0; s < steps; s++ {
		op := vrt.Pick(vrt.Range("op", 0, 4))
		switch op {
		case 0: // publisher arrives
			if pub != nil {
				continue
			}
			pub, _ = kitRtmpSession()
			vrt.Assert(g.AddRtmpPubSession(pub) == nil, "publisher accepted")
			start()
		case 1: // tick
			g.Tick(uint32(s + 1))
			start()
		case 2: // the attempt of target j ends (dial failure, or the established session ended)
			if n == 0 {
				continue
			}
			j := vrt.Pick(vrt.Range("j", 0, n-1))
			if state[j] == idle {
				continue // nothing in flight for this target
			}
			if sess[j] == nil {
				sess[j] = rtmp.NewPushSession() // the goroutine creates the session before dialling
			}
			g.DelRtmpPushSession(urls[j], sess[j])
			state[j], sess[j] = idle, nil
		case 3: // the attempt of target j attached
			if n == 0 {
				continue
			}
			j := vrt.Pick(vrt.Range("j", 0, n-1))
			if state[j] != inflight || sess[j] != nil {
				continue
			}
			sess[j] = rtmp.NewPushSession()
			g.AddRtmpPushSession(urls[j], sess[j])
			if pub != nil {
				state[j] = attached
			}
		case 4: // publisher leaves
			if pub == nil {
				continue
			}
			g.DelRtmpPubSession(pub)
			pub = nil
			for j := range state {
				if state[j] == attached {
					// closed by the group; its goroutine reports the end later (op 2)
					vrt.Assert(sess[j].Dispose() == nil, "push session closed when the publisher leaves")
					state[j] = closing
				}
			}
		}
		// invariant
		if cfg.RelayPushConfig.Enable {
			vrt.Assert(len(g.url2PushProxy) == n, "one proxy per configured target")
			for j := 0; j < n; j++ {
				p := g.url2PushProxy[urls[j]]
				vrt.Assert(p != nil, "target key")
				if p == nil {
					return
				}
				vrt.Assert(p.isPushing == (state[j] != idle), "an attempt is in flight or attached exactly when the model says")
				if state[j] == attached && pub != nil {
					vrt.Assert(p.pushSession == sess[j], "attached session recorded")
				}
			}
		}
		if vrt.Symbolic() {
			vrt.Assert(vrt.Spawned() == spawns, "one attempt goroutine per idle target per trigger, none otherwise")
		}
	}
	vrt.Cover("end")
}
