package rtmp

import (
	vkit "github.com/q191201771/lal/pkg/zzvkit"
	vrt "github.com/q191201771/lal/pkg/zzvrt"
)

// VerifC17LongNames: the client-side command writers with stream names / URLs of any length
// (a relayed publisher's URL parameters end up in the publish command).
func VerifC17LongNames() {
	n := vrt.Param("n")
	name := vrt.Str("name", n)
	conn := &vkit.Conn{}
	p := NewMessagePacker()
	var err error
	want := "publish"
	switch vrt.Param("cmd") {
	case 0:
		err = p.writePublish(conn, "live", name, 1)
	case 1:
		err = p.writePlay(conn, name, 1)
		want = "play"
	case 2:
		err = p.writeConnect(conn, "live", "rtmp://h/live?"+name, true)
		want = "connect"
	}
	vrt.Assert(err == nil, "command written")
	rd := &refChunkReader{chunkSize: LocalChunkSize}
	vrt.Assert(rd.readAll(conn.All()), "output is a well-formed chunk stream")
	vrt.Assert(len(rd.out) == 1 && rd.out[0].typ == 20, "one AMF0 command message")
	if len(rd.out) != 1 {
		return
	}
	b := rd.out[0].payload
	cmd, l, e := Amf0.ReadString(b)
	vrt.Assert(e == nil && cmd == want, "command name")
	b = b[l:]
	_, l, e = Amf0.ReadNumber(b)
	vrt.Assert(e == nil, "transaction id")
	b = b[l:]
	switch vrt.Param("cmd") {
	case 0, 1:
		l, e = Amf0.ReadNull(b)
		vrt.Assert(e == nil, "null command object")
		b = b[l:]
		got, _, e := Amf0.ReadString(b)
		vrt.Assert(e == nil && len(got) == n, "stream name length preserved")
		same := true
		for i := 0; i < n && i < len(got); i++ {
			same = vrt.And(same, got[i] == name[i])
		}
		vrt.Assert(same, "stream name with URL parameters forwarded byte for byte")
	case 2:
		opa, _, e := Amf0.ReadObject(b)
		vrt.Assert(e == nil, "connect object")
		tc, e2 := opa.FindString("tcUrl")
		vrt.Assert(e2 == nil && len(tc) == len("rtmp://h/live?")+n, "tcUrl length preserved")
	}
	vrt.Cover("end")
}
