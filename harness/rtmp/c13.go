package rtmp

import (
	"bytes"

	"github.com/q191201771/lal/pkg/base"
	vkit "github.com/q191201771/lal/pkg/zzvkit"
	vrt "github.com/q191201771/lal/pkg/zzvrt"
)

// VerifC13RtmpClient: lal as RTMP client (relay pull, relay push). After the handshake the upstream server
// can send any message: type id of every class, well-formed command prefixes (_result for connect and
// createStream, onStatus, _error) followed by an arbitrary tail, or wholly arbitrary payloads.
// Nothing panics; at most the session ends with an error.
func VerifC13RtmpClient() {
	st := base.SessionTypeRtmpPull
	if vrt.Param("push") == 1 {
		st = base.SessionTypeRtmpPush
	}
	s := NewClientSession(st)
	s.conn = &vkit.Conn{}
	_ = s.parseUrl("rtmp://user:pass@h/live/s1")
	if vrt.Param("ack") == 1 {
		s.option.PeerWinAckSize = int(vrt.U32("win")) // the server set a window earlier
	}
	n := vrt.Param("n")
	var p []byte
	typ := uint8(vrt.Param("typ"))
	if vrt.Param("typ") < 0 {
		typ = vrt.U8("typ") // any type id
	}
	switch vrt.Param("pre") {
	case 1:
		p = c04Cmd("_result", 1, nil)
	case 2:
		p = c04Cmd("_result", 2, nil)
	case 3:
		p = c04Cmd("onStatus", 0, func(b *bytes.Buffer) { _ = Amf0.WriteNull(b) })
	case 4:
		p = c04Cmd("_error", 1, func(b *bytes.Buffer) { _ = Amf0.WriteNull(b) })
	case 5:
		p = c04Cmd("_result", 1, func(b *bytes.Buffer) {
			_ = Amf0.WriteObject(b, ObjectPairArray{{Key: "fmsVer", Value: "x"}})
		})
	}
	p = append(p, vrt.Bytes("tail", n)...)
	_ = s.doMsg(c04Stream(typ, 1, vrt.U32("ts"), p))
	vrt.Cover("end")
}
