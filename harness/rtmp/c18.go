package rtmp

import (
	"bytes"
	"math"

	vrt "github.com/q191201771/lal/pkg/zzvrt"
)

// ---- reference AMF0 writer (AMF0 specification, 2.x), used for types lal only reads ----

func refAmfKey(out []byte, k string) []byte {
	out = append(out, byte(len(k)>>8), byte(len(k)))
	return append(out, k...)
}

func refAmfNumber(out []byte, bits uint64) []byte {
	out = append(out, 0x00)
	for i := 7; i >= 0; i-- {
		out = append(out, byte(bits>>(uint(i)*8)))
	}
	return out
}

func refAmfString(out []byte, s string) []byte {
	if len(s) < 65536 {
		out = append(out, 0x02, byte(len(s)>>8), byte(len(s)))
	} else {
		out = append(out, 0x0c, byte(len(s)>>24), byte(len(s)>>16), byte(len(s)>>8), byte(len(s)))
	}
	return append(out, s...)
}

func c18eqStr(a, b string) bool { return a == b }

// VerifC18Scalar: round trip of number / boolean / null / string (short and long form).
func VerifC18Scalar() {
	kind := vrt.Param("kind")
	buf := &bytes.Buffer{}
	switch kind {
	case 0:
		bits := vrt.U64("num")
		v := math.Float64frombits(bits)
		vrt.Assert(Amf0.WriteNumber(buf, v) == nil, "WriteNumber ok")
		b := buf.Bytes()
		vrt.Assert(len(b) == 9, "number encodes to 9 bytes")
		g, l, err := Amf0.ReadNumber(b)
		vrt.Assert(err == nil && l == len(b), "ReadNumber consumes exactly the encoding")
		vrt.Assert(math.Float64bits(g) == bits, "number bits preserved")
		ref := refAmfNumber(nil, bits)
		vrt.Assert(bytes.Equal(ref, b), "number encoding equals reference encoding")
	case 1:
		v := vrt.Bool("b")
		vrt.Assert(Amf0.WriteBoolean(buf, v) == nil, "WriteBoolean ok")
		b := buf.Bytes()
		g, l, err := Amf0.ReadBoolean(b)
		vrt.Assert(err == nil && l == len(b) && l == 2 && g == v, "boolean round trip")
	case 2:
		vrt.Assert(Amf0.WriteNull(buf) == nil, "WriteNull ok")
		b := buf.Bytes()
		l, err := Amf0.ReadNull(b)
		vrt.Assert(err == nil && l == len(b) && l == 1, "null round trip")
	case 3:
		n := vrt.Param("slen")
		s := vrt.Str("s", n)
		vrt.Assert(Amf0.WriteString(buf, s) == nil, "WriteString ok")
		b := buf.Bytes()
		g, l, err := Amf0.ReadString(b)
		vrt.Assert(err == nil, "ReadString ok")
		vrt.Assert(l == len(b), "ReadString consumes exactly the encoding")
		vrt.Assert(c18eqStr(g, s), "string preserved")
		ref := refAmfString(nil, s)
		vrt.Assert(bytes.Equal(ref, b), "string encoding equals reference encoding")
	}
	vrt.Cover("end")
}

// VerifC18Object: WriteObject -> ReadObject / ReadObjectOrArray for up to 3 pairs.
// vk encodes the value kinds as base-3 digits (0 number, 1 bool, 2 string).
func VerifC18Object() {
	np, vk, kl, sl := vrt.Param("pairs"), vrt.Param("vk"), vrt.Param("klen"), vrt.Param("slen")
	var opa ObjectPairArray
	kinds := make([]int, np)
	for i := 0; i < np; i++ {
		kinds[i] = vk % 3
		vk /= 3
		key := vrt.Str("key", kl)
		switch kinds[i] {
		case 0:
			opa = append(opa, ObjectPair{Key: key, Value: math.Float64frombits(vrt.U64("num"))})
		case 1:
			opa = append(opa, ObjectPair{Key: key, Value: vrt.Bool("bool")})
		case 2:
			opa = append(opa, ObjectPair{Key: key, Value: vrt.Str("str", sl)})
		}
	}
	buf := &bytes.Buffer{}
	vrt.Assert(Amf0.WriteObject(buf, opa) == nil, "WriteObject ok")
	b := buf.Bytes()
	// an empty key followed by the object-end marker byte 0x09 would be read as the end of the object:
	// AMF0 reserves the empty key for the end marker, so keys are assumed non-empty (klen >= 1).
	got, l, err := Amf0.ReadObject(b)
	vrt.Assert(err == nil, "ReadObject ok")
	vrt.Assert(l == len(b), "ReadObject consumes exactly the encoding")
	vrt.Assert(len(got) == np, "same number of pairs")
	for i := 0; i < np && i < len(got); i++ {
		vrt.Assert(c18eqStr(got[i].Key, opa[i].Key), "key preserved")
		switch kinds[i] {
		case 0:
			v, ok := got[i].Value.(float64)
			vrt.Assert(ok && math.Float64bits(v) == math.Float64bits(opa[i].Value.(float64)), "number value preserved")
		case 1:
			v, ok := got[i].Value.(bool)
			vrt.Assert(ok && v == opa[i].Value.(bool), "bool value preserved")
		case 2:
			v, ok := got[i].Value.(string)
			vrt.Assert(ok && c18eqStr(v, opa[i].Value.(string)), "string value preserved")
		}
	}
	got2, l2, err2 := Amf0.ReadObjectOrArray(b)
	vrt.Assert(err2 == nil && l2 == l && len(got2) == len(got), "ReadObjectOrArray agrees")
	vrt.Cover("end")
}

// VerifC18ReaderTypes: containers lal only reads, produced by the reference writer:
// ECMA array / strict array / nested object holding number, string, null, undefined.
func VerifC18ReaderTypes() {
	kind := vrt.Param("kind")
	bits := vrt.U64("num")
	s := vrt.Str("s", vrt.Param("slen"))
	key := vrt.Str("key", 2)
	var b []byte
	switch kind {
	case 0: // ecma array with 2 entries + end marker
		b = append(b, 0x08, 0, 0, 0, 2)
		b = refAmfKey(b, key)
		b = refAmfNumber(b, bits)
		b = refAmfKey(b, "k2")
		b = refAmfString(b, s)
		b = append(b, 0, 0, 9)
		got, l, err := Amf0.ReadArray(b)
		vrt.Assert(err == nil && l == len(b) && len(got) == 2, "ecma array read")
		if len(got) == 2 {
			v, ok := got[0].Value.(float64)
			vrt.Assert(ok && math.Float64bits(v) == bits && c18eqStr(got[0].Key, key), "ecma number entry")
			w, ok := got[1].Value.(string)
			vrt.Assert(ok && c18eqStr(w, s) && got[1].Key == "k2", "ecma string entry")
		}
	case 1: // strict array
		b = append(b, 0x0a, 0, 0, 0, 3)
		b = refAmfNumber(b, bits)
		b = append(b, 0x05) // null: skipped
		b = refAmfString(b, s)
		got, l, err := Amf0.ReadStrictArray(b)
		vrt.Assert(err == nil && l == len(b) && len(got) == 2, "strict array read (null entries are skipped)")
		if len(got) == 2 {
			v, ok := got[0].Value.(float64)
			vrt.Assert(ok && math.Float64bits(v) == bits, "strict number entry")
			w, ok := got[1].Value.(string)
			vrt.Assert(ok && c18eqStr(w, s), "strict string entry")
		}
	case 2: // nested object inside object, with undefined
		b = append(b, 0x03)
		b = refAmfKey(b, key)
		b = append(b, 0x03)
		b = refAmfKey(b, "in")
		b = refAmfNumber(b, bits)
		b = refAmfKey(b, "un")
		b = append(b, 0x06)
		b = append(b, 0, 0, 9)
		b = refAmfKey(b, "after")
		b = refAmfString(b, s)
		b = append(b, 0, 0, 9)
		got, l, err := Amf0.ReadObject(b)
		vrt.Assert(err == nil && l == len(b) && len(got) == 2, "nested object read")
		if len(got) == 2 {
			in, ok := got[0].Value.(ObjectPairArray)
			vrt.Assert(ok && len(in) == 1, "inner object has one pair (undefined skipped)")
			if ok && len(in) == 1 {
				v, ok := in[0].Value.(float64)
				vrt.Assert(ok && math.Float64bits(v) == bits && in[0].Key == "in", "inner number")
			}
			w, ok := got[1].Value.(string)
			vrt.Assert(ok && c18eqStr(w, s) && got[1].Key == "after", "pair after nested object")
		}
	}
	vrt.Cover("end")
}

// VerifC18Arbitrary: every reader entry point on n arbitrary bytes: no panic, consumed <= n,
// loops bounded by the buffer (loop budget = n+3 symbolic decisions per loop header).
func VerifC18Arbitrary() {
	n := vrt.Param("n")
	b := vrt.Bytes("b", n)
	switch vrt.Param("fn") {
	case 0:
		_, l, err := Amf0.ReadString(b)
		vrt.Assert(err != nil || (l >= 0 && l <= n), "ReadString consumed within buffer")
	case 1:
		_, l, err := Amf0.ReadNumber(b)
		vrt.Assert(err != nil || l == 9, "ReadNumber consumed")
		_, l, err = Amf0.ReadBoolean(b)
		vrt.Assert(err != nil || l == 2, "ReadBoolean consumed")
		l, err = Amf0.ReadNull(b)
		vrt.Assert(err != nil || l == 1, "ReadNull consumed")
	case 2:
		_, l, err := Amf0.ReadObject(b)
		vrt.Assert(err != nil || (l >= 0 && l <= n), "ReadObject consumed within buffer")
	case 3:
		_, l, err := Amf0.ReadArray(b)
		vrt.Assert(err != nil || (l >= 0 && l <= n), "ReadArray consumed within buffer")
	case 4:
		_, l, err := Amf0.ReadStrictArray(b)
		vrt.Assert(err != nil || (l >= 0 && l <= n), "ReadStrictArray consumed within buffer")
	case 5:
		_, _ = ParseMetadata(b)
	case 6:
		r, err := MetadataEnsureWithSdf(b)
		_ = err
		_ = r
		r2, _ := MetadataEnsureWithoutSdf(b)
		_ = r2
	}
	vrt.Cover("end")
}

// VerifC18Depth: a spine of nested container openings must not recurse without bound.
// kind 0 object, 1 ecma array, 2 strict array, 3 alternating.
func VerifC18Depth() {
	d := vrt.Param("depth")
	if !vrt.Symbolic() {
		d *= vrt.Param("native_scale")
	}
	kind := vrt.Param("kind")
	var b []byte
	for i := 0; i < d; i++ {
		k := kind
		if kind == 3 {
			k = i % 3
		}
		switch k {
		case 0:
			b = append(b, 0x03, 0, 1, 'a')
		case 1:
			b = append(b, 0x08, 0, 0, 0, 1, 0, 1, 'a')
		case 2:
			b = append(b, 0x0a, 0, 0, 0, 1)
		}
	}
	b = append(b, vrt.Bytes("tail", vrt.Param("tail"))...)
	_, _, _ = Amf0.ReadObjectOrArray(b)
	_, _, _ = Amf0.ReadStrictArray(b)
	vrt.Cover("end")
}

// VerifC18Sdf: adding / stripping the @setDataFrame prefix preserves the remaining bytes.
func VerifC18Sdf() {
	withPrefix := vrt.Param("prefix") >= 1
	tail := vrt.Bytes("tail", vrt.Param("tail"))
	var in []byte
	if vrt.Param("prefix") == 1 {
		in = refAmfString(nil, "@setDataFrame")
	} else if vrt.Param("prefix") == 2 {
		// the same string in AMF0 long-string form (0x0c + 32-bit length), which lal's reader accepts as a string
		in = append([]byte{0x0c, 0, 0, 0, 13}, "@setDataFrame"...)
	}
	in = append(in, tail...)
	snapshot := append([]byte{}, in...)

	// strip
	out, err := MetadataEnsureWithoutSdf(in)
	if withPrefix {
		vrt.Assert(err == nil, "strip: ok")
		vrt.Assert(bytes.Equal(out, tail), "strip: tail bytes preserved exactly")
	} else if err == nil {
		// first value is some other string (or the tail itself starts with "@setDataFrame"): either unchanged or stripped once
		v, l, _ := Amf0.ReadString(tail)
		if v == "@setDataFrame" {
			vrt.Assert(bytes.Equal(out, tail[l:]), "strip: prefix inside tail stripped")
		} else {
			vrt.Assert(bytes.Equal(out, tail), "strip: unchanged without prefix")
		}
	} else {
		vrt.Assert(bytes.Equal(out, in), "strip: unparsable input returned unchanged")
	}
	if len(out) > 0 && len(in) > 0 {
		out[0] ^= 0xff
		vrt.Assert(bytes.Equal(in, snapshot), "strip: result does not alias the input")
		out[0] ^= 0xff
	}

	// ensure
	out2, err2 := MetadataEnsureWithSdf(in)
	if withPrefix {
		vrt.Assert(err2 == nil && bytes.Equal(out2, in), "ensure: already prefixed input unchanged")
	} else if err2 == nil {
		v, _, _ := Amf0.ReadString(tail)
		if v == "@setDataFrame" {
			vrt.Assert(bytes.Equal(out2, in), "ensure: unchanged when already present")
		} else {
			want := append(refAmfString(nil, "@setDataFrame"), tail...)
			vrt.Assert(bytes.Equal(out2, want), "ensure: prefix added, tail preserved")
		}
	} else {
		vrt.Assert(bytes.Equal(out2, in), "ensure: unparsable input returned unchanged")
	}
	if len(out2) > 0 && len(in) > 0 {
		out2[0] ^= 0xff
		vrt.Assert(bytes.Equal(in, snapshot), "ensure: result does not alias the input")
	}
	vrt.Cover("end")
}

// VerifC18BuildMetadata: metadata built by lal reads back with the fields it was built from.
func VerifC18BuildMetadata() {
	w, h, a, v := vrt.Int("w"), vrt.Int("h"), vrt.Int("a"), vrt.Int("v")
	b, err := BuildMetadata(w, h, a, v)
	vrt.Assert(err == nil, "BuildMetadata ok")
	opa, err := ParseMetadata(b)
	vrt.Assert(err == nil, "ParseMetadata ok")
	check := func(key string, val int) {
		got := opa.Find(key)
		if val == -1 {
			vrt.Assert(got == nil, "absent field not present: "+key)
			return
		}
		f, ok := got.(float64)
		vrt.Assert(ok && math.Float64bits(f) == math.Float64bits(float64(val)), "field reads back: "+key)
	}
	check("width", w)
	check("height", h)
	check("audiocodecid", a)
	check("videocodecid", v)
	vrt.Assert(opa.Find("version") != nil && opa.Find("lal") != nil, "version fields present")
	vrt.Cover("end")
}
