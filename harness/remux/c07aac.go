package remux

import (
	"github.com/q191201771/lal/pkg/base"
	"github.com/q191201771/lal/pkg/rtprtcp"
	vrt "github.com/q191201771/lal/pkg/zzvrt"
)

// c07AacPacket is a reference RFC 3640 (AAC-hbr: sizeLength 13, indexLength 3) payload: AU-headers-length
// in bits, one 16-bit AU-header per access unit, then the access units (or one fragment of a single unit).
func c07AacPacket(sizes []int, data []byte) []byte {
	b := []byte{byte(len(sizes) * 16 >> 8), byte(len(sizes) * 16)}
	for _, s := range sizes {
		b = append(b, byte(s>>5), byte(s&0x1f)<<3)
	}
	return append(b, data...)
}

// VerifC07Aac: AAC frames packetised per RFC 3640 by the reference packetiser - several access units in
// one packet, or one access unit fragmented over several packets - come out of lal's unpacker byte for
// byte, in order, each once, with timestamps at the clock rate.
func VerifC07Aac() {
	rate := vrt.Param("rate")
	n := vrt.Param("n")       // access units in the first packet
	frag := vrt.Param("frag") // fragments of the following access unit (0 = none)
	l := vrt.Param("len")
	var got []base.AvPacket
	un := rtprtcp.DefaultRtpUnpackerFactory(base.AvPacketPtAac, rate, 1024, func(pkt base.AvPacket) {
		got = append(got, base.AvPacket{Timestamp: pkt.Timestamp, Payload: append([]byte{}, pkt.Payload...)})
	})
	seq := vrt.U16("seq0")
	ts := uint32(vrt.Param("ts"))
	var want [][]byte
	var wantMs []int64
	// packet 1: n access units of lengths l, l+1, ...
	var sizes []int
	var data []byte
	for i := 0; i < n; i++ {
		f := vrt.Bytes("au", l+i)
		want = append(want, f)
		wantMs = append(wantMs, int64((uint64(ts)+uint64(i)*1024)*1000/uint64(rate)))
		sizes = append(sizes, l+i)
		data = append(data, f...)
	}
	un.Feed(c07Rtp(seq, ts, true, 97, c07AacPacket(sizes, data)))
	seq++
	if frag > 0 {
		ts2 := ts + uint32(n)*1024
		f := vrt.Bytes("big", l*frag+1)
		want = append(want, f)
		wantMs = append(wantMs, int64(uint64(ts2)*1000/uint64(rate)))
		for k := 0; k < frag; k++ {
			a, b := k*l, (k+1)*l
			if k == frag-1 {
				b = len(f)
			}
			un.Feed(c07Rtp(seq, ts2, k == frag-1, 97, c07AacPacket([]int{len(f)}, f[a:b])))
			seq++
		}
	}
	vrt.Assert(len(got) == len(want), "every access unit delivered exactly once")
	if len(got) != len(want) {
		return
	}
	for i := range want {
		vrt.Assert(c06Eq(got[i].Payload, want[i]), "access units byte for byte, in order")
		d := got[i].Timestamp - wantMs[i]
		vrt.Assert(d >= -1 && d <= 1, "timestamp = (RTP timestamp + 1024 * index) at the clock rate, within one millisecond")
	}
	vrt.Cover("end")
}
