package remux

import (
	"github.com/q191201771/lal/pkg/base"
	vrt "github.com/q191201771/lal/pkg/zzvrt"
)

// VerifC13AvPacket: the AvPacket -> RTMP remuxer is the common sink of RTSP ingest (AVCC from the RTP
// unpackers), GB28181 ingest (Annex-B, ADTS) and the customize-pub API. Whatever bytes an AvPacket carries -
// zero-length NAL units, truncated length fields, bare start codes, short ADTS headers - nothing panics.
func VerifC13AvPacket() {
	n := 0
	rm := NewAvPacket2RtmpRemuxer().WithOnRtmpMsg(func(msg base.RtmpMsg) { n++ })
	if vrt.Param("annexb") == 1 {
		rm.WithOption(func(option *base.AvPacketStreamOption) {
			option.VideoFormat = base.AvPacketStreamVideoFormatAnnexb
			option.AudioFormat = base.AvPacketStreamAudioFormatAdtsAac
		})
	}
	pt := base.AvPacketPt(vrt.Param("pt"))
	for k := 0; k < vrt.Param("pkts"); k++ {
		rm.FeedAvPacket(base.AvPacket{PayloadType: pt, Timestamp: int64(vrt.U32("ts")), Payload: vrt.Bytes("p", vrt.Param("n"))})
	}
	vrt.Cover("end")
}
