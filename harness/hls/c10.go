package hls

import (
	"strconv"
	"strings"

	"github.com/q191201771/lal/pkg/base"
	"github.com/q191201771/lal/pkg/mpegts"
	vrt "github.com/q191201771/lal/pkg/zzvrt"
	"github.com/q191201771/naza/pkg/filesystemlayer"
)

// ---- ghost file system: every operation is a crash point at which the invariants are checked ----

type c10File struct {
	fs   *c10Fs
	name string
}

func (f *c10File) Write(b []byte) (int, error) {
	f.fs.files[f.name] = append(f.fs.files[f.name], b...)
	f.fs.after("write " + f.name)
	return len(b), nil
}
func (f *c10File) Close() error { f.fs.after("close " + f.name); return nil }

type c10Err struct{}

func (*c10Err) Error() string { return "ghost fs: no such file" }

type c10Fs struct {
	files map[string][]byte
	ops   int
	check func(op string)
}

func (fs *c10Fs) after(op string) {
	fs.ops++
	if fs.check != nil {
		fs.check(op)
	}
}
func (fs *c10Fs) Type() filesystemlayer.FslType { return filesystemlayer.FslTypeMemory }
func (fs *c10Fs) Create(name string) (filesystemlayer.IFile, error) {
	fs.files[name] = []byte{}
	fs.after("create " + name)
	return &c10File{fs: fs, name: name}, nil
}
func (fs *c10Fs) Rename(o, n string) error {
	b, ok := fs.files[o]
	if !ok {
		return &c10Err{}
	}
	delete(fs.files, o)
	fs.files[n] = b
	fs.after("rename " + n)
	return nil
}
func (fs *c10Fs) MkdirAll(path string, perm uint32) error { return nil }
func (fs *c10Fs) Remove(name string) error {
	if _, ok := fs.files[name]; !ok {
		return &c10Err{}
	}
	delete(fs.files, name)
	fs.after("remove " + name)
	return nil
}
func (fs *c10Fs) RemoveAll(path string) error { return nil }
func (fs *c10Fs) ReadFile(name string) ([]byte, error) {
	b, ok := fs.files[name]
	if !ok {
		return nil, &c10Err{}
	}
	return append([]byte{}, b...), nil
}
func (fs *c10Fs) WriteFile(name string, data []byte, perm uint32) error {
	fs.files[name] = append([]byte{}, data...)
	fs.after("writefile " + name)
	return nil
}

type c10Obs struct{}

func (c10Obs) OnHlsMakeTs(info base.HlsMakeTsInfo) {}
func (c10Obs) OnFragmentOpen()                     {}

// ---- playlist parser (RFC 8216 subset lal emits) ----

type c10Entry struct {
	dur     float64
	name    string
	discont bool
}

type c10Playlist struct {
	ok      bool
	target  int
	seq     int
	entries []c10Entry
	ended   bool
}

func c10Parse(b []byte) (p c10Playlist) {
	lines := strings.Split(string(b), "\n")
	if len(lines) < 4 || lines[0] != "#EXTM3U" {
		return
	}
	haveT, haveS := false, false
	var cur c10Entry
	expectName := false
	for _, l := range lines[1:] {
		switch {
		case expectName:
			if l == "" || strings.HasPrefix(l, "#") {
				return
			}
			cur.name = l
			p.entries = append(p.entries, cur)
			cur = c10Entry{}
			expectName = false
		case strings.HasPrefix(l, "#EXT-X-TARGETDURATION:"):
			v, err := strconv.Atoi(l[len("#EXT-X-TARGETDURATION:"):])
			if err != nil {
				return
			}
			p.target, haveT = v, true
		case strings.HasPrefix(l, "#EXT-X-MEDIA-SEQUENCE:"):
			v, err := strconv.Atoi(l[len("#EXT-X-MEDIA-SEQUENCE:"):])
			if err != nil {
				return
			}
			p.seq, haveS = v, true
		case strings.HasPrefix(l, "#EXTINF:"):
			s := strings.TrimSuffix(l[len("#EXTINF:"):], ",")
			v, err := strconv.ParseFloat(s, 64)
			if err != nil {
				return
			}
			cur.dur = v
			expectName = true
		case l == "#EXT-X-DISCONTINUITY":
			cur.discont = true
		case l == "#EXT-X-ENDLIST":
			p.ended = true
		case l == "" || strings.HasPrefix(l, "#EXT-X-VERSION") || strings.HasPrefix(l, "#EXT-X-ALLOW-CACHE"):
		default:
			return
		}
	}
	if expectName || !haveT || !haveS {
		return
	}
	p.ok = true
	return
}

// VerifC10Muxer: every sequence of k frames over a menu of timestamp steps / boundary flags / tracks
// (each choice a solver variable); invariants are checked after every ghost file-system operation.
func VerifC10Muxer() {
	k := vrt.Param("k")
	vrt.ConcreteClock(1700000000000000000, 1000000)
	cfg := &MuxerConfig{OutPath: "/hls", FragmentDurationMs: 3000, FragmentNum: vrt.Param("fragnum"), DeleteThreshold: vrt.Param("delthr"), CleanupMode: vrt.Param("cleanup")}
	fs := &c10Fs{files: map[string][]byte{}}
	fslCtx = fs
	patpmt := append(mpegts.PackPat(), mpegts.PackPmt(7, 10)...)
	m := NewMuxer("s1", cfg, c10Obs{})
	live := m.playlistFilename

	lastSeq := -1
	var history [][]string // segment names of each published live playlist version
	var lastPl string
	var fed []byte // every TS packet handed to the muxer since the first segment was opened
	opened := false
	fs.check = func(op string) {
		b, ok := fs.files[live]
		if !ok {
			return
		}
		p := c10Parse(b)
		vrt.Assert(p.ok, "live playlist is complete and well-formed at every instant")
		if !p.ok {
			return
		}
		vrt.Assert(p.seq >= lastSeq, "media sequence never decreases")
		lastSeq = p.seq
		var names []string
		for _, e := range p.entries {
			names = append(names, e.name)
			seg, exists := fs.files["/hls/s1/"+e.name]
			vrt.Assert(exists, "every listed segment exists")
			if exists {
				vrt.Assert(len(seg)%188 == 0 && len(seg) >= len(patpmt), "listed segment is whole TS packets")
				same := len(seg) >= len(patpmt)
				for i := 0; same && i < len(patpmt); i++ {
					same = seg[i] == patpmt[i]
				}
				vrt.Assert(same, "listed segment begins with PAT/PMT")
			}
			r := int(e.dur + 0.5)
			vrt.Assert(p.target >= r, "target duration covers every listed duration rounded to the nearest second")
		}
		if string(b) != lastPl {
			lastPl = string(b)
			history = append(history, names)
		}
		// segments of the current and the previous delete_threshold playlist versions are still present
		for v := len(history) - 1; v >= 0 && v >= len(history)-1-cfg.DeleteThreshold; v-- {
			for _, n := range history[v] {
				_, exists := fs.files["/hls/s1/"+n]
				vrt.Assert(exists, "segments of the last delete_threshold+1 playlist versions are still present")
			}
		}
	}

	m.Start()
	m.FeedPatPmt(patpmt)
	ts := uint64(90000 * 10)
	var aCc, vCc uint8
	for i := 0; i < k; i++ {
		step := vrt.Pick(vrt.Range("step", 0, vrt.Param("steps")-1))
		switch step {
		case 0:
			ts += 90000 * 1
		case 1:
			ts += 90000 * 4
		case 2:
			ts += 90000 * 70 // forward jump: forced split
		case 3:
			ts -= 90000 * 2 // backwards a little
		case 4:
			ts -= 90000 * 9 // backwards jump (ts stays positive: starts at 10 s)
			if ts > 1<<62 {
				ts = 0
			}
		}
		boundary := vrt.Bool("boundary")
		audio := vrt.Bool("audio")
		f := &mpegts.Frame{Pts: ts, Dts: ts, Pid: mpegts.PidVideo, Sid: mpegts.StreamIdVideo, Key: boundary}
		if audio {
			f.Pid, f.Sid, f.Key = mpegts.PidAudio, mpegts.StreamIdAudio, false
			f.Cc = aCc
		} else {
			f.Cc = vCc
		}
		pkt := vrt.Bytes("ts", 188)
		wasOpen := m.opened
		m.FeedMpegts(pkt, f, boundary)
		if m.opened {
			if wasOpen || opened {
				// the packet was written (to the current or to a newly opened segment)
			}
			fed = append(fed, pkt...)
			opened = true
		}
	}
	m.Dispose()
	b, ok := fs.files[live]
	if opened {
		vrt.Assert(ok, "live playlist exists after the stream ends")
		p := c10Parse(b)
		vrt.Assert(p.ok && p.ended, "live playlist is finalised with an end marker")
		if cfg.CleanupMode != CleanupModeAsap {
			rb, rok := fs.files[m.recordPlayListFilename]
			vrt.Assert(rok, "record playlist exists")
			rp := c10Parse(rb)
			vrt.Assert(rp.ok && rp.ended, "record playlist well-formed")
			// every segment ever produced is listed, and their payloads are exactly the packets fed, in order
			var all []byte
			for _, e := range rp.entries {
				seg, exists := fs.files["/hls/s1/"+e.name]
				vrt.Assert(exists && len(seg) >= len(patpmt), "recorded segment exists")
				if exists && len(seg) >= len(patpmt) {
					all = append(all, seg[len(patpmt):]...)
				}
				vrt.Assert(rp.target >= int(e.dur+0.5), "record target duration covers every duration")
			}
			vrt.Assert(len(all) == len(fed), "segments contain every TS packet fed since the first open exactly once")
			same := len(all) == len(fed)
			for i := 0; same && i < len(fed); i++ {
				same = vrt.And(same, all[i] == fed[i])
			}
			vrt.Assert(same, "segments in order contain the fed packets in order")
			// re-publish of the same stream name: a second muxer over the same directory. The record playlist keeps
			// listing every segment of the first session (cleanup is not immediate) and adds the new ones.
			if vrt.Param("again") == 1 {
				fs.check = nil
				vrt.NativeSleepMs(3) // segment names carry the wall clock in milliseconds
				m2 := NewMuxer("s1", cfg, c10Obs{})
				m2.Start()
				m2.FeedPatPmt(patpmt)
				t2 := uint64(90000 * 10)
				for i := 0; i < 3; i++ {
					f := &mpegts.Frame{Pts: t2, Dts: t2, Pid: mpegts.PidVideo, Sid: mpegts.StreamIdVideo, Key: true}
					m2.FeedMpegts(vrt.Bytes("ts2", 188), f, true)
					t2 += 90000 * 4
				}
				m2.Dispose()
				rb2, rok2 := fs.files[m2.recordPlayListFilename]
				vrt.Assert(rok2, "record playlist exists after the second session")
				rp2 := c10Parse(rb2)
				vrt.Assert(rp2.ok && rp2.ended, "record playlist well-formed after the second session")
				listed := map[string]bool{}
				for _, e := range rp2.entries {
					listed[e.name] = true
				}
				for _, e := range rp.entries {
					vrt.Assert(listed[e.name], "the record playlist still lists every segment of the first session after a re-publish")
				}
				vrt.Assert(len(rp2.entries) > len(rp.entries), "and lists the segments of the second session")
			}
		}
	}
	vrt.Cover("end")
}
