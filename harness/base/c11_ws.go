package base

import (
	vkit "github.com/q191201771/lal/pkg/zzvkit"
	vrt "github.com/q191201771/lal/pkg/zzvrt"
)

// refWsHeader is an RFC 6455 section 5.2 frame-header parser written from the specification.
type refWsHeader struct {
	fin, rsv1, rsv2, rsv3, masked bool
	opcode                        uint8
	length                        uint64
	maskKey                       [4]byte
	size                          int
	lenForm                       int // 7, 16 or 64
	ok                            bool
}

func refParseWsHeader(b []byte) (h refWsHeader) {
	if len(b) < 2 {
		return
	}
	h.fin = b[0]&0x80 != 0
	h.rsv1 = b[0]&0x40 != 0
	h.rsv2 = b[0]&0x20 != 0
	h.rsv3 = b[0]&0x10 != 0
	h.opcode = b[0] & 0x0f
	h.masked = b[1]&0x80 != 0
	l7 := b[1] & 0x7f
	pos := 2
	switch {
	case l7 < 126:
		h.length = uint64(l7)
		h.lenForm = 7
	case l7 == 126:
		if len(b) < 4 {
			return
		}
		h.length = uint64(b[2])<<8 | uint64(b[3])
		h.lenForm = 16
		pos = 4
	default:
		if len(b) < 10 {
			return
		}
		for i := 0; i < 8; i++ {
			h.length = h.length<<8 | uint64(b[2+i])
		}
		h.lenForm = 64
		pos = 10
	}
	if h.masked {
		if len(b) < pos+4 {
			return
		}
		copy(h.maskKey[:], b[pos:pos+4])
		pos += 4
	}
	h.size = pos
	h.ok = true
	return
}

// VerifC11WsHeader: MakeWsFrameHeader for every header value (full width, no bound).
func VerifC11WsHeader() {
	in := WsHeader{
		Fin:           vrt.Bool("fin"),
		Rsv1:          vrt.Bool("rsv1"),
		Rsv2:          vrt.Bool("rsv2"),
		Rsv3:          vrt.Bool("rsv3"),
		Opcode:        vrt.U8("opcode"),
		PayloadLength: vrt.U64("len"),
		Masked:        vrt.Bool("masked"),
		MaskKey:       vrt.U32("key"),
	}
	vrt.Assume(in.Opcode < 16)
	out := MakeWsFrameHeader(in)
	h := refParseWsHeader(out)
	vrt.Assert(h.ok, "header parses")
	vrt.Assert(h.size == len(out), "header size equals bytes produced")
	vrt.Assert(h.fin == in.Fin && h.rsv1 == in.Rsv1 && h.rsv2 == in.Rsv2 && h.rsv3 == in.Rsv3, "flag bits")
	vrt.Assert(h.opcode == in.Opcode, "opcode")
	vrt.Assert(h.masked == in.Masked, "mask bit")
	vrt.Assert(h.length == in.PayloadLength, "declared length equals payload length")
	// minimal length form (RFC 6455: the minimal number of bytes MUST be used)
	switch {
	case in.PayloadLength < 126:
		vrt.Assert(h.lenForm == 7, "7-bit form for <126")
	case in.PayloadLength <= 0xFFFF:
		vrt.Assert(h.lenForm == 16, "16-bit form for <=65535")
	default:
		vrt.Assert(h.lenForm == 64, "64-bit form for >65535")
	}
	if in.Masked {
		k := uint32(h.maskKey[0]) | uint32(h.maskKey[1])<<8 | uint32(h.maskKey[2])<<16 | uint32(h.maskKey[3])<<24
		vrt.Assert(k == in.MaskKey, "mask key bytes")
	}
	vrt.Cover("end")
}

// VerifC11WsWrite: BasicHttpSubSession.Write, plain and WebSocket, for a payload of len bytes.
func VerifC11WsWrite() {
	n := vrt.Param("len")
	fc := &vkit.Conn{}
	s := &BasicHttpSubSession{conn: fc}
	s.IsWebSocket = vrt.Bool("ws")
	b := vrt.Bytes("b", n)
	s.Write(b)
	all := fc.All()
	if !s.IsWebSocket {
		vrt.Assert(len(all) == n, "plain: same length")
		for i := 0; i < n && i < len(all); i++ {
			vrt.Assert(all[i] == b[i], "plain: same bytes")
		}
		vrt.Cover("end")
		return
	}
	h := refParseWsHeader(all)
	vrt.Assert(h.ok, "ws: frame header parses")
	vrt.Assert(h.fin && !h.rsv1 && !h.rsv2 && !h.rsv3 && h.opcode == 2 && !h.masked, "ws: one complete unmasked binary frame")
	vrt.Assert(h.length == uint64(n), "ws: declared length equals payload length")
	vrt.Assert(len(all) == h.size+n, "ws: nothing but header and payload written")
	for i := 0; i < n && h.size+i < len(all); i++ {
		vrt.Assert(all[h.size+i] == b[i], "ws: payload bytes")
	}
	vrt.Cover("end")
}
