#!/bin/bash
# development aid: usage tools/seed_try.sh <patch.diff> <check ids...>
# applies a seeded change in a scratch worktree (not /repo) and runs the quick checks against it through
# GOSYM_REPO. The recorded result of a seed always comes from tools/seed_eval.sh, which applies it to /repo.
set -u
patch="$1"; shift
wt=/tmp/seedtry_$$
git -C /repo worktree add -q $wt HEAD || exit 2
( cd $wt && git apply "$patch" ) || { echo "PATCH DOES NOT APPLY"; git -C /repo worktree remove --force $wt; exit 2; }
for c in "$@"; do
  out=$(cd /verif && GOSYM_REPO=$wt timeout 1500 ./check $c quick 2>&1); code=$?
  echo "$out" | grep -E "^C[0-9]+ quick|VIOLATION|INCONCLUSIVE|ENGINE" | head -4 | cut -c1-220
  echo "  -> $c exit $code"
done
git -C /repo worktree remove --force $wt
git -C /repo worktree prune
