package sym

import (
	"bytes"
	"context"
	"crypto/sha1"
	"encoding/json"
	"fmt"
	"math/rand"
	"os"
	"os/exec"
	"path/filepath"
	"regexp"
	"runtime"
	"sort"
	"strconv"
	"strings"
	"sync"
	"time"

	"golang.org/x/tools/go/ssa"
)

// ---- check specification ----

type InstanceFamily struct {
	P    map[string]json.RawMessage `json:"p"`    // parameter -> int | [ints] | "lo..hi"
	Opt  map[string]int             `json:"opt"`  // engine options: loop_budget, max_recursion, choice_limit, max_paths, timeout_ms
	Note string                     `json:"note"` // free text
}

type HarnessSpec struct {
	Name        string           `json:"name"`
	Pkg         string           `json:"pkg"`   // e.g. pkg/rtmp
	Func        string           `json:"func"`  // e.g. VerifC08Header
	Files       []string         `json:"files"` // relative to /verif/harness
	Quick       []InstanceFamily `json:"quick"`
	Thorough    []InstanceFamily `json:"thorough"`
	ExpectCover []string         `json:"expect_cover"`
	Solver      string           `json:"solver"`
	Functions   []string         `json:"functions"` // functions under test (documentation for evidence)
	Bounds      string           `json:"bounds"`
	// BudgetIsProperty: an unwind (loop budget) finding is a violation rather than an inconclusive run
	BudgetIsProperty bool `json:"budget_is_property"`
	// AllowTruncation: concretisation truncations are a stated bound, not an inconclusive run
	AllowTruncation bool `json:"allow_truncation"`
}

type CheckSpec struct {
	Property    string        `json:"property"`
	Harnesses   []HarnessSpec `json:"harnesses"`
	Assumptions []string      `json:"assumptions"`
	Rule        string        `json:"rule"`
}

type KnownFinding struct {
	Property string `json:"property"`
	ID       string `json:"id"`
	Harness  string `json:"harness"`
	Kind     string `json:"kind"`
	Label    string `json:"label"` // regexp on the finding label
	Site     string `json:"site"`  // regexp on the finding site
	What     string `json:"what"`
	Status   string `json:"status"` // known | fixed
	Commit   string `json:"commit,omitempty"`
}

type Instance struct {
	H      *HarnessSpec
	Params map[string]int
	Opt    map[string]int
}

func (in *Instance) String() string {
	keys := make([]string, 0, len(in.Params))
	for k := range in.Params {
		keys = append(keys, k)
	}
	sort.Strings(keys)
	var sb strings.Builder
	sb.WriteString(in.H.Name)
	for _, k := range keys {
		fmt.Fprintf(&sb, " %s=%d", k, in.Params[k])
	}
	return sb.String()
}

func parseRange(raw json.RawMessage) ([]int, error) {
	var n int
	if json.Unmarshal(raw, &n) == nil {
		return []int{n}, nil
	}
	var ns []int
	if json.Unmarshal(raw, &ns) == nil {
		return ns, nil
	}
	var s string
	if err := json.Unmarshal(raw, &s); err != nil {
		return nil, fmt.Errorf("bad parameter range %s", raw)
	}
	var out []int
	for _, part := range strings.Split(s, ",") {
		part = strings.TrimSpace(part)
		if i := strings.Index(part, ".."); i >= 0 {
			lo, e1 := strconv.Atoi(part[:i])
			hi, e2 := strconv.Atoi(part[i+2:])
			if e1 != nil || e2 != nil {
				return nil, fmt.Errorf("bad range %q", part)
			}
			for v := lo; v <= hi; v++ {
				out = append(out, v)
			}
		} else {
			v, err := strconv.Atoi(part)
			if err != nil {
				return nil, fmt.Errorf("bad value %q", part)
			}
			out = append(out, v)
		}
	}
	return out, nil
}

func expand(h *HarnessSpec, fams []InstanceFamily) ([]*Instance, error) {
	var out []*Instance
	for _, f := range fams {
		keys := make([]string, 0, len(f.P))
		for k := range f.P {
			keys = append(keys, k)
		}
		sort.Strings(keys)
		vals := make([][]int, len(keys))
		for i, k := range keys {
			v, err := parseRange(f.P[k])
			if err != nil {
				return nil, err
			}
			vals[i] = v
		}
		var rec func(i int, cur map[string]int)
		rec = func(i int, cur map[string]int) {
			if i == len(keys) {
				p := map[string]int{}
				for k, v := range cur {
					p[k] = v
				}
				out = append(out, &Instance{H: h, Params: p, Opt: f.Opt})
				return
			}
			for _, v := range vals[i] {
				cur[keys[i]] = v
				rec(i+1, cur)
			}
		}
		rec(0, map[string]int{})
	}
	return out, nil
}

// ---- results ----

type InstanceResult struct {
	Inst     *Instance
	Findings []*Finding
	Metas    map[string]map[string]InputMeta // finding key -> input metadata
	Stats    Stats
	Solver   struct {
		Queries, Sat, Unsat, Unknown, Errors int
		TimeS                                float64
		LastError                            string
	}
	WallS       float64
	Err         string
	Witness     map[string]uint64
	WitnessMeta map[string]InputMeta
}

type ReplayFile struct {
	Property string                 `json:"property"`
	Harness  string                 `json:"harness"`
	Pkg      string                 `json:"pkg"`
	Func     string                 `json:"func"`
	Files    []string               `json:"files"`
	Kind     string                 `json:"kind"`
	Label    string                 `json:"label"`
	Site     string                 `json:"site"`
	Pos      string                 `json:"pos"`
	Params   map[string]int         `json:"params"`
	Values   map[string]interface{} `json:"values"`
	Stack    []string               `json:"stack,omitempty"`
}

type Driver struct {
	VerifDir string
	Spec     *CheckSpec
	Tier     string
	Seed     int64
	Workers  int
	Verbose  bool
	Known    []KnownFinding
	prog     *ssa.Program
	pkgs     map[string]*ssa.Package
	ov       *Overlay
	debug    bool
}

func LoadKnown(path string) ([]KnownFinding, error) {
	b, err := os.ReadFile(path)
	if err != nil {
		if os.IsNotExist(err) {
			return nil, nil
		}
		return nil, err
	}
	var f struct {
		Findings []KnownFinding `json:"findings"`
	}
	if err := json.Unmarshal(b, &f); err != nil {
		return nil, err
	}
	return f.Findings, nil
}

func (d *Driver) load() error {
	pk := map[string][]string{}
	var dirs []string
	for _, h := range d.Spec.Harnesses {
		if _, ok := pk[h.Pkg]; !ok {
			dirs = append(dirs, h.Pkg)
		}
		for _, f := range h.Files {
			dup := false
			for _, g := range pk[h.Pkg] {
				if g == f {
					dup = true
				}
			}
			if !dup {
				pk[h.Pkg] = append(pk[h.Pkg], f)
			}
		}
	}
	ov, err := BuildOverlay(d.VerifDir, pk)
	if err != nil {
		return err
	}
	d.ov = ov
	prog, pkgs, err := LoadProgram(ov, dirs)
	if err != nil {
		return err
	}
	d.prog, d.pkgs = prog, pkgs
	return nil
}

func (d *Driver) runInstance(in *Instance) *InstanceResult {
	res := &InstanceResult{Inst: in, Metas: map[string]map[string]InputMeta{}}
	t0 := time.Now()
	defer func() { res.WallS = time.Since(t0).Seconds() }()
	pkg := d.pkgs[in.H.Pkg]
	if pkg == nil {
		res.Err = "package not loaded: " + in.H.Pkg
		return res
	}
	fn := pkg.Func(in.H.Func)
	if fn == nil {
		res.Err = "harness function not found: " + in.H.Func
		return res
	}
	opt := Options{Params: in.Params, SuppressSites: map[string]bool{}}
	noMerge := false
	timeout := 60000
	instanceMs := 600000
	if d.Tier == "thorough" {
		timeout = 300000
		instanceMs = 2400000
	}
	for k, v := range in.Opt {
		switch k {
		case "loop_budget":
			opt.LoopBudget = v
		case "max_recursion":
			opt.MaxRecursion = v
		case "choice_limit":
			opt.ChoiceLimit = v
		case "max_paths":
			opt.MaxPaths = v
		case "max_steps":
			opt.MaxSteps = v
		case "timeout_ms":
			timeout = v
		case "instance_ms":
			instanceMs = v
		case "no_merge":
			noMerge = v != 0
		}
	}
	solver := in.H.Solver
	if solver == "" {
		solver = "z3"
		// GOSYM_SOLVER re-decides a check with another back end (z3-new, cvc5) for the cross-solver comparison
		// of tools/solver_diff.sh; registered commands never set it
		if s := os.Getenv("GOSYM_SOLVER"); s != "" {
			solver = s
		}
	}
	ex, err := NewExec(d.prog, opt, solver, timeout)
	if err != nil {
		res.Err = err.Error()
		return res
	}
	defer ex.Close()
	ex.NoMerge = noMerge
	ex.Deadline = time.Now().Add(time.Duration(instanceMs) * time.Millisecond)
	for i := range d.Known {
		// a harness with a listed (unrepaired) finding is explored to the end, so that a different violation in
		// the same instance is still found
		if k := &d.Known[i]; k.Status == "known" && k.Property == d.Spec.Property && (k.Harness == "" || k.Harness == in.H.Name) {
			ex.NoEarlyStop = true
		}
	}
	if d.debug {
		last := time.Now()
		ex.Progress = func(e *Exec) {
			if time.Since(last) > 2*time.Second {
				last = time.Now()
				fmt.Printf("  paths=%d queries=%d solver=%.1fs trail=%d lastEnd=%s findings=%d\n", e.Stats.Paths, e.Solver().Queries, e.Solver().Time.Seconds(), len(e.trail), e.LastEnd, len(e.Findings))
			}
		}
		if os.Getenv("GOSYM_TRACE") != "" {
			ex.Trace = true
		}
	}
	func() {
		defer func() {
			if r := recover(); r != nil {
				buf := make([]byte, 4096)
				n := runtime.Stack(buf, false)
				res.Err = fmt.Sprintf("engine panic: %v at %s\n%s", r, ex.where(), buf[:n])
			}
		}()
		ex.Run(fn)
	}()
	res.Findings = ex.Findings
	res.Witness, res.WitnessMeta = ex.Witness, ex.WitnessMeta
	for _, f := range ex.Findings {
		res.Metas[f.Key()] = ex.findingMeta[f]
	}
	res.Stats = ex.Stats
	s := ex.Solver()
	res.Solver.Queries, res.Solver.Sat, res.Solver.Unsat, res.Solver.Unknown, res.Solver.Errors = s.Queries, s.NSat, s.NUnsat, s.NUnknown, s.Errors
	res.Solver.TimeS = s.Time.Seconds()
	res.Solver.LastError = s.LastError
	return res
}

func (d *Driver) matchKnown(h *HarnessSpec, f *Finding) *KnownFinding {
	for i := range d.Known {
		k := &d.Known[i]
		if k.Property != d.Spec.Property {
			continue
		}
		if k.Harness != "" && k.Harness != h.Name {
			continue
		}
		if k.Kind != "" && k.Kind != f.Kind {
			continue
		}
		if k.Label != "" {
			if ok, _ := regexp.MatchString(k.Label, f.Label); !ok {
				continue
			}
		}
		if k.Site != "" {
			if ok, _ := regexp.MatchString(k.Site, f.Site); !ok {
				continue
			}
		}
		return k
	}
	return nil
}

// modelToValues converts a solver model into replay values (tag#k -> number or byte list).
func modelToValues(model map[string]uint64, metas map[string]InputMeta) map[string]interface{} {
	out := map[string]interface{}{}
	byteLists := map[string]map[int]uint64{}
	for name, m := range metas {
		v := model[name]
		if m.Idx < 0 {
			out[m.Tag] = v
		} else {
			if byteLists[m.Tag] == nil {
				byteLists[m.Tag] = map[int]uint64{}
			}
			byteLists[m.Tag][m.Idx] = v
		}
	}
	for tag, bl := range byteLists {
		n := 0
		for i := range bl {
			if i+1 > n {
				n = i + 1
			}
		}
		arr := make([]uint64, n)
		for i, v := range bl {
			arr[i] = v
		}
		out[tag] = arr
	}
	return out
}

// ---- native replay ----

type replayOutcome struct {
	Reproduced bool
	Output     string
	Err        string
}

var replayBuildMu sync.Mutex
var replayBins = map[string]string{}

func (d *Driver) workDir() string {
	return filepath.Join(d.VerifDir, "work", d.Spec.Property)
}

// buildReplayBinary compiles the package's test binary with harness overlay and a generated replay test.
func (d *Driver) buildReplayBinary(h *HarnessSpec) (string, error) {
	replayBuildMu.Lock()
	defer replayBuildMu.Unlock()
	if b, ok := replayBins[h.Pkg]; ok {
		return b, nil
	}
	wd := d.workDir()
	os.MkdirAll(wd, 0o755)
	// collect harness funcs of this package
	var funcs []string
	seen := map[string]bool{}
	for _, hh := range d.Spec.Harnesses {
		if hh.Pkg == h.Pkg && !seen[hh.Func] {
			seen[hh.Func] = true
			funcs = append(funcs, hh.Func)
		}
	}
	pkgName := d.pkgs[h.Pkg].Pkg.Name()
	var sb strings.Builder
	fmt.Fprintf(&sb, "package %s\n\nimport (\n\t\"os\"\n\t\"testing\"\n\n\tvrt \"%s/pkg/zzvrt\"\n)\n\n", pkgName, ModulePath)
	sb.WriteString("func TestVerifReplay(t *testing.T) {\n\tfns := map[string]func(){\n")
	for _, f := range funcs {
		fmt.Fprintf(&sb, "\t\t%q: %s,\n", f, f)
	}
	sb.WriteString("\t}\n\tvrt.LoadReplay(os.Getenv(\"VERIF_REPLAY\"))\n\tfn := fns[os.Getenv(\"VERIF_HARNESS\")]\n\tif fn == nil {\n\t\tt.Fatal(\"unknown harness\")\n\t}\n")
	sb.WriteString("\tdefer func() {\n\t\tif r := recover(); r != nil {\n\t\t\tif s, ok := r.(string); ok && s == \"VERIF-STOP\" {\n\t\t\t\treturn\n\t\t\t}\n\t\t\tpanic(r)\n\t\t}\n\t}()\n\tfn()\n}\n")
	safe := strings.ReplaceAll(h.Pkg, "/", "_")
	testSrc := filepath.Join(wd, "replay_"+safe+"_test.go")
	if err := os.WriteFile(testSrc, []byte(sb.String()), 0o644); err != nil {
		return "", err
	}
	ovj := map[string]map[string]string{"Replace": {}}
	for v, r := range d.ov.Files {
		ovj["Replace"][v] = r
	}
	ovj["Replace"][filepath.Join(RepoDir, h.Pkg, "zz_verif_replay_test.go")] = testSrc
	ob, _ := json.Marshal(ovj)
	ovPath := filepath.Join(wd, "overlay_"+safe+".json")
	if err := os.WriteFile(ovPath, ob, 0o644); err != nil {
		return "", err
	}
	bin := filepath.Join(wd, "replay_"+safe+".test")
	cmd := exec.Command("go", "test", "-c", "-vet=off", "-overlay", ovPath, "-o", bin, "./"+h.Pkg)
	cmd.Dir = RepoDir
	cmd.Env = goEnv()
	out, err := cmd.CombinedOutput()
	if err != nil {
		return "", fmt.Errorf("building replay binary: %v\n%s", err, out)
	}
	replayBins[h.Pkg] = bin
	return bin, nil
}

func (d *Driver) replay(h *HarnessSpec, path string, timeout time.Duration) replayOutcome {
	bin, err := d.buildReplayBinary(h)
	if err != nil {
		return replayOutcome{Err: err.Error()}
	}
	ctx, cancel := context.WithTimeout(context.Background(), timeout)
	defer cancel()
	cmd := exec.CommandContext(ctx, bin, "-test.run", "^TestVerifReplay$", "-test.count=1", "-test.timeout", "0")
	cmd.Dir = filepath.Join(RepoDir, h.Pkg)
	cmd.Env = append(os.Environ(), "VERIF_REPLAY="+path, "VERIF_HARNESS="+h.Func)
	var buf bytes.Buffer
	cmd.Stdout, cmd.Stderr = &buf, &buf
	err = cmd.Run()
	out := buf.String()
	if len(out) > 6000 {
		out = out[:3000] + "\n...\n" + out[len(out)-3000:]
	}
	if ctx.Err() == context.DeadlineExceeded {
		return replayOutcome{Reproduced: true, Output: out + "\n[replay timed out: treated as hang]"}
	}
	if err == nil {
		return replayOutcome{Reproduced: false, Output: out}
	}
	if strings.Contains(out, "VERIF-ASSUME-FAILED") {
		return replayOutcome{Reproduced: false, Output: out, Err: "replayed model violates a harness assumption"}
	}
	if strings.Contains(out, "panic:") || strings.Contains(out, "fatal error:") {
		return replayOutcome{Reproduced: true, Output: out}
	}
	return replayOutcome{Reproduced: false, Output: out, Err: "replay failed without panic: " + err.Error()}
}

// ---- the check ----

type obligationSample struct {
	Instance string            `json:"instance"`
	Paths    int               `json:"paths"`
	Oblig    int               `json:"obligations"`
	BySolver int               `json:"decided_by_solver"`
	Queries  int               `json:"solver_queries"`
	Findings []string          `json:"findings,omitempty"`
	Covers   map[string]int    `json:"covers,omitempty"`
	Extra    map[string]string `json:"extra,omitempty"`
}

func (d *Driver) Run() int {
	t0 := time.Now()
	prop := d.Spec.Property
	if err := d.load(); err != nil {
		fmt.Printf("ERROR loading /repo with harness overlay: %v\n", err)
		return 3
	}
	loadS := time.Since(t0).Seconds()
	os.RemoveAll(d.workDir())
	os.MkdirAll(d.workDir(), 0o755)

	var insts []*Instance
	for i := range d.Spec.Harnesses {
		h := &d.Spec.Harnesses[i]
		fams := h.Quick
		if d.Tier == "thorough" && len(h.Thorough) > 0 {
			fams = append(append([]InstanceFamily{}, h.Quick...), h.Thorough...)
		}
		is, err := expand(h, fams)
		if err != nil {
			fmt.Printf("ERROR in spec: %v\n", err)
			return 3
		}
		insts = append(insts, is...)
	}
	rng := rand.New(rand.NewSource(d.Seed))
	rng.Shuffle(len(insts), func(i, j int) { insts[i], insts[j] = insts[j], insts[i] })

	results := make([]*InstanceResult, len(insts))
	var wg sync.WaitGroup
	ch := make(chan int)
	nw := d.Workers
	if nw > len(insts) {
		nw = len(insts)
	}
	var doneN int
	var mu sync.Mutex
	for w := 0; w < nw; w++ {
		wg.Add(1)
		go func() {
			defer wg.Done()
			for i := range ch {
				r := d.runInstance(insts[i])
				results[i] = r
				mu.Lock()
				doneN++
				if d.Verbose {
					fmt.Printf("[%d/%d] %s: paths=%d findings=%d queries=%d wall=%.1fs %s\n", doneN, len(insts), insts[i], r.Stats.Paths, len(r.Findings), r.Solver.Queries, r.WallS, r.Err)
				}
				mu.Unlock()
			}
		}()
	}
	for i := range insts {
		ch <- i
	}
	close(ch)
	wg.Wait()

	// aggregate
	type agg struct {
		h     *HarnessSpec
		f     *Finding
		inst  *Instance
		metas map[string]InputMeta
		count int
	}
	findings := map[string]*agg{}
	var order []string
	inconclusive := []string{}
	var tot struct {
		paths, normal, oblig, obSolver, obSimp, queries, sat, unsat, unknown, errs int
		steps                                                                      int64
		solverS                                                                    float64
		covers                                                                     map[string]int
		funcs                                                                      map[string]bool
		trunc                                                                      map[string]int
		placeholders                                                               map[string]int
	}
	tot.covers = map[string]int{}
	tot.funcs = map[string]bool{}
	tot.trunc = map[string]int{}
	tot.placeholders = map[string]int{}
	var samples []obligationSample
	nontrivial := 0
	for _, r := range results {
		in := r.Inst
		if r.Err != "" {
			inconclusive = append(inconclusive, fmt.Sprintf("%s: %s", in, r.Err))
		}
		for k, n := range r.Stats.Unsupported {
			if n > 0 {
				inconclusive = append(inconclusive, fmt.Sprintf("%s: unsupported: %s (%d paths)", in, k, n))
			}
		}
		for k, n := range r.Stats.Unwinds {
			if !in.H.BudgetIsProperty || !strings.HasPrefix(k, "loop-budget") {
				inconclusive = append(inconclusive, fmt.Sprintf("%s: unwind: %s (%d paths)", in, k, n))
			}
		}
		for k, n := range r.Stats.Placeholders {
			tot.placeholders[in.H.Name+": "+k] += n
		}
		for k, n := range r.Stats.Truncations {
			tot.trunc[in.H.Name+": "+k] += n
			if !in.H.AllowTruncation {
				inconclusive = append(inconclusive, fmt.Sprintf("%s: concretisation truncated: %s (%d)", in, k, n))
			}
		}
		if r.Solver.Errors > 0 {
			inconclusive = append(inconclusive, fmt.Sprintf("%s: solver errors: %s", in, r.Solver.LastError))
		}
		for _, c := range in.H.ExpectCover {
			if r.Stats.Covers[c] == 0 && r.Err == "" {
				inconclusive = append(inconclusive, fmt.Sprintf("%s: vacuous: cover point %q not reached", in, c))
			}
		}
		tot.paths += r.Stats.Paths
		tot.normal += r.Stats.PathsNormal
		tot.steps += r.Stats.Steps
		tot.oblig += r.Stats.Obligations
		tot.obSolver += r.Stats.ObSolver
		tot.obSimp += r.Stats.ObSimplifier
		tot.queries += r.Solver.Queries
		tot.sat += r.Solver.Sat
		tot.unsat += r.Solver.Unsat
		tot.unknown += r.Solver.Unknown
		tot.errs += r.Solver.Errors
		tot.solverS += r.Solver.TimeS
		for k, v := range r.Stats.Covers {
			tot.covers[k] += v
		}
		for k := range r.Stats.FuncsExecuted {
			tot.funcs[k] = true
		}
		if r.Stats.ObSolver > 0 || r.Solver.Queries > 0 {
			nontrivial += r.Stats.PathsNormal + r.Stats.PathsPanic
		}
		var fl []string
		for _, f := range r.Findings {
			fl = append(fl, f.Kind+":"+f.Label+"@"+f.Site)
			if f.Kind == "unwind" && !in.H.BudgetIsProperty {
				continue
			}
			key := in.H.Name + "|" + f.Key()
			a := findings[key]
			if a == nil {
				findings[key] = &agg{h: in.H, f: f, inst: in, metas: r.Metas[f.Key()], count: 1}
				order = append(order, key)
			} else {
				a.count++
			}
		}
		if len(samples) < 12 || len(fl) > 0 && len(samples) < 40 {
			samples = append(samples, obligationSample{Instance: in.String(), Paths: r.Stats.Paths, Oblig: r.Stats.Obligations, BySolver: r.Stats.ObSolver, Queries: r.Solver.Queries, Findings: fl, Covers: r.Stats.Covers})
		}
	}
	sort.Strings(order)

	// replay findings natively, match against the known-findings file
	violations := 0
	var violationLines, knownLines, mismatchLines []string
	knownSeen := map[string]bool{}
	os.MkdirAll(filepath.Join(d.VerifDir, "replays", prop), 0o755)
	type job struct {
		key  string
		a    *agg
		path string
		out  replayOutcome
	}
	var jobs []*job
	for _, key := range order {
		a := findings[key]
		rf := ReplayFile{Property: prop, Harness: a.h.Name, Pkg: a.h.Pkg, Func: a.h.Func, Files: a.h.Files, Kind: a.f.Kind, Label: a.f.Label, Site: a.f.Site, Pos: a.f.Pos, Params: a.inst.Params, Values: modelToValues(a.f.Model, a.metas), Stack: a.f.Stack}
		b, _ := json.MarshalIndent(rf, "", " ")
		sum := sha1.Sum([]byte(key))
		name := fmt.Sprintf("%s-%s-%x.json", a.h.Name, sanitize(a.f.Kind+"_"+a.f.Label), sum[:4])
		if len(name) > 120 {
			name = name[:60] + fmt.Sprintf("-%x.json", sum[:6])
		}
		path := filepath.Join(d.VerifDir, "replays", prop, name)
		os.WriteFile(path, b, 0o644)
		jobs = append(jobs, &job{key: key, a: a, path: path})
	}
	if len(jobs) > 0 {
		var rwg sync.WaitGroup
		sem := make(chan struct{}, 8)
		for _, j := range jobs {
			rwg.Add(1)
			go func(j *job) {
				defer rwg.Done()
				sem <- struct{}{}
				defer func() { <-sem }()
				to := 60 * time.Second
				if j.a.f.Kind == "unwind" || j.a.f.Kind == "depth" {
					to = 20 * time.Second
				}
				j.out = d.replay(j.a.h, j.path, to)
			}(j)
		}
		rwg.Wait()
	}
	for _, j := range jobs {
		a := j.a
		desc := fmt.Sprintf("%s %s:%s at %s (%s) [%d instance(s), first: %s]", a.h.Name, a.f.Kind, a.f.Label, a.f.Site, a.f.Pos, a.count, a.inst)
		if !j.out.Reproduced {
			mismatchLines = append(mismatchLines, fmt.Sprintf("ENGINE-MISMATCH %s replay=%s: solver model did not reproduce natively (%s)\n%s", desc, j.path, j.out.Err, tail(j.out.Output, 800)))
			continue
		}
		if k := d.matchKnown(a.h, a.f); k != nil && k.Status == "known" {
			if !knownSeen[k.ID] {
				knownSeen[k.ID] = true
				knownLines = append(knownLines, fmt.Sprintf("KNOWN-FINDING: property=%s %s [%s] (%s)", prop, k.What, k.ID, desc))
			}
			continue
		}
		violations++
		violationLines = append(violationLines, fmt.Sprintf("VIOLATION property=%s replay=%s", prop, j.path))
		violationLines = append(violationLines, "  "+desc)
		violationLines = append(violationLines, "  "+firstPanicLine(j.out.Output))
	}

	// translator validation: replay one satisfying input of a completed path per harness (up to 2) natively;
	// the compiled code must agree with the executor that no assertion fails and nothing panics
	witnessOK, witnessRun := 0, 0
	if os.Getenv("VERIF_NO_WITNESS") == "" {
		perH := map[string]int{}
		type wjob struct {
			r    *InstanceResult
			path string
			out  replayOutcome
		}
		var wjobs []*wjob
		for _, r := range results {
			if r.Witness == nil || len(r.Findings) > 0 || r.Err != "" || perH[r.Inst.H.Name] >= 2 {
				continue
			}
			perH[r.Inst.H.Name]++
			rf := ReplayFile{Property: prop, Harness: r.Inst.H.Name, Pkg: r.Inst.H.Pkg, Func: r.Inst.H.Func, Files: r.Inst.H.Files, Kind: "witness", Label: "completed path", Params: r.Inst.Params, Values: modelToValues(r.Witness, r.WitnessMeta)}
			b, _ := json.MarshalIndent(rf, "", " ")
			path := filepath.Join(d.workDir(), fmt.Sprintf("witness-%s-%d.json", r.Inst.H.Name, perH[r.Inst.H.Name]))
			os.WriteFile(path, b, 0o644)
			wjobs = append(wjobs, &wjob{r: r, path: path})
		}
		var wwg sync.WaitGroup
		wsem := make(chan struct{}, 8)
		for _, j := range wjobs {
			wwg.Add(1)
			go func(j *wjob) {
				defer wwg.Done()
				wsem <- struct{}{}
				defer func() { <-wsem }()
				j.out = d.replay(j.r.Inst.H, j.path, 60*time.Second)
			}(j)
		}
		wwg.Wait()
		for _, j := range wjobs {
			witnessRun++
			if j.out.Err != "" && !j.out.Reproduced && strings.Contains(j.out.Err, "building replay binary") {
				mismatchLines = append(mismatchLines, "ENGINE-MISMATCH cannot build native replay binary: "+tail(j.out.Err, 600))
				continue
			}
			if j.out.Reproduced || j.out.Err != "" {
				mismatchLines = append(mismatchLines, fmt.Sprintf("ENGINE-MISMATCH witness of %s did not run clean natively (%s)\n%s", j.r.Inst, j.out.Err, tail(j.out.Output, 800)))
				continue
			}
			witnessOK++
		}
	}

	wall := time.Since(t0).Seconds()
	status := "held"
	code := 0
	if len(inconclusive) > 0 || len(mismatchLines) > 0 {
		status = "inconclusive"
		code = 3
	}
	if violations > 0 {
		status = "violated"
		code = 1
	}

	// evidence
	funcsUnderTest := []string{}
	boundsTxt := []string{}
	for _, h := range d.Spec.Harnesses {
		funcsUnderTest = append(funcsUnderTest, h.Functions...)
		if h.Bounds != "" {
			boundsTxt = append(boundsTxt, h.Name+": "+h.Bounds)
		}
	}
	var executed []string
	for f := range tot.funcs {
		if strings.Contains(f, "q191201771") && !strings.Contains(f, "zzvrt") {
			executed = append(executed, f)
		}
	}
	sort.Strings(executed)
	sampleVals := make([]interface{}, 0, len(samples))
	for _, s := range samples {
		sampleVals = append(sampleVals, s)
	}
	if len(sampleVals) == 0 {
		sampleVals = append(sampleVals, "no instance ran")
	}
	truncList := []string{}
	for k, n := range tot.trunc {
		truncList = append(truncList, fmt.Sprintf("%s (%d)", k, n))
	}
	sort.Strings(truncList)
	phList := []string{}
	for k, n := range tot.placeholders {
		phList = append(phList, fmt.Sprintf("%s (%d)", k, n))
	}
	sort.Strings(phList)
	if os.Getenv("GOSYM_SHOW_PLACEHOLDERS") != "" {
		for _, l := range phList {
			fmt.Println("PLACEHOLDER " + l)
		}
	}
	cov := map[string]interface{}{
		"evaluations":                       tot.oblig + tot.queries,
		"distinct_nontrivial":               nontrivial,
		"rule":                              d.Spec.Rule + " | evaluations = safety/assert obligations examined plus solver queries; distinct_nontrivial = distinct feasible paths (each a distinct path condition) explored in instances where the solver decided at least one branch or obligation",
		"samples":                           sampleVals,
		"states":                            tot.paths,
		"transitions":                       tot.queries,
		"traces_validated_against_impl":     witnessOK + len(jobs),
		"native_witness_replays":            fmt.Sprintf("%d of %d completed-path models re-executed natively without assertion failure or panic (translator validation); %d counterexample replays", witnessOK, witnessRun, len(jobs)),
		"instances":                         len(insts),
		"paths_explored":                    tot.paths,
		"paths_completed":                   tot.normal,
		"ssa_instructions_executed":         tot.steps,
		"obligations":                       tot.oblig,
		"obligations_decided_by_solver":     tot.obSolver,
		"obligations_decided_by_simplifier": tot.obSimp,
		"solver_queries":                    tot.queries,
		"solver_sat":                        tot.sat,
		"solver_unsat":                      tot.unsat,
		"solver_unknown":                    tot.unknown,
		"solver_errors":                     tot.errs,
		"solver_time_s":                     round2(tot.solverS),
		"solver":                            "one persistent solver process per instance: z3 4.8.12 (/usr/bin/z3 -in) unless the harness names another back end; back ends used in this run: " + strings.Join(solversUsed(d.Spec), ", "),
		"functions_under_test":              funcsUnderTest,
		"lal_functions_executed":            executed,
		"bounds":                            boundsTxt,
		"cover_points":                      tot.covers,
		"concretisation_truncations":        truncList,
		"formatted_text_placeholders":       phList,
		"known_findings_seen":               knownLines,
		"inconclusive":                      inconclusive,
		"status":                            status,
		"load_and_ssa_build_s":              round2(loadS),
		"encoding":                          "regenerated from /repo working tree on this run (go/packages + go/ssa, harness overlay)",
	}
	ev := map[string]interface{}{
		"property_id": prop,
		"tier":        d.Tier,
		"seed":        d.Seed,
		"level":       "model_checking",
		"coverage":    cov,
		"assumptions": d.Spec.Assumptions,
		"wall_s":      round2(wall),
		"violations":  violations,
	}
	eb, _ := json.MarshalIndent(ev, "", " ")
	os.MkdirAll(filepath.Join(d.VerifDir, "evidence"), 0o755)
	os.WriteFile(filepath.Join(d.VerifDir, "evidence", prop+".json"), eb, 0o644)

	fmt.Printf("%s %s: %s — %d instances, %d paths, %d obligations (%d by solver), %d queries, solver %.1fs, wall %.1fs\n",
		prop, d.Tier, status, len(insts), tot.paths, tot.oblig, tot.obSolver, tot.queries, tot.solverS, wall)
	for _, l := range knownLines {
		fmt.Println(l)
	}
	for _, l := range inconclusive {
		fmt.Println("INCONCLUSIVE " + l)
	}
	for _, l := range mismatchLines {
		fmt.Println(l)
	}
	for _, l := range violationLines {
		fmt.Println(l)
	}
	return code
}

func round2(f float64) float64 { return float64(int(f*100+0.5)) / 100 }

func tail(s string, n int) string {
	if len(s) <= n {
		return s
	}
	return s[len(s)-n:]
}

func firstPanicLine(out string) string {
	for _, l := range strings.Split(out, "\n") {
		if strings.Contains(l, "panic:") || strings.Contains(l, "fatal error:") {
			return strings.TrimSpace(l)
		}
	}
	return ""
}

// ReplayOne re-runs one recorded model natively and prints the outcome.
func (d *Driver) ReplayOne(path string) int {
	b, err := os.ReadFile(path)
	if err != nil {
		fmt.Println("ERROR:", err)
		return 3
	}
	var rf ReplayFile
	if err := json.Unmarshal(b, &rf); err != nil {
		fmt.Println("ERROR:", err)
		return 3
	}
	if err := d.load(); err != nil {
		fmt.Println("ERROR:", err)
		return 3
	}
	var h *HarnessSpec
	for i := range d.Spec.Harnesses {
		if d.Spec.Harnesses[i].Name == rf.Harness {
			h = &d.Spec.Harnesses[i]
		}
	}
	if h == nil {
		fmt.Println("ERROR: harness not in spec:", rf.Harness)
		return 3
	}
	os.MkdirAll(d.workDir(), 0o755)
	out := d.replay(h, path, 120*time.Second)
	fmt.Println(out.Output)
	if out.Reproduced {
		fmt.Printf("REPRODUCED %s:%s at %s\n", rf.Kind, rf.Label, rf.Site)
		return 1
	}
	fmt.Println("not reproduced", out.Err)
	return 0
}

// RunOne runs a single instance with progress output (debugging aid).
func (d *Driver) RunOne(harness string, params map[string]int) int {
	if err := d.load(); err != nil {
		fmt.Println("ERROR:", err)
		return 3
	}
	for i := range d.Spec.Harnesses {
		h := &d.Spec.Harnesses[i]
		if h.Name != harness {
			continue
		}
		d.debug = true
		opt := map[string]int{}
		for k, v := range params {
			if strings.HasPrefix(k, "opt.") {
				opt[k[4:]] = v
				delete(params, k)
			}
		}
		r := d.runInstance(&Instance{H: h, Params: params, Opt: opt})
		b, _ := json.MarshalIndent(r.Stats, "", " ")
		fmt.Println(string(b))
		for _, f := range r.Findings {
			fmt.Printf("FINDING %s:%s at %s %s\n  model=%v\n  stack=%v\n", f.Kind, f.Label, f.Site, f.Pos, modelToValues(f.Model, r.Metas[f.Key()]), f.Stack)
		}
		fmt.Printf("solver: %+v wall=%.1fs err=%s\n", r.Solver, r.WallS, r.Err)
		return 0
	}
	fmt.Println("no such harness")
	return 3
}

func solversUsed(spec *CheckSpec) []string {
	seen := map[string]bool{}
	var out []string
	for _, h := range spec.Harnesses {
		k := h.Solver
		if k == "" {
			k = "z3"
		}
		if k == "cvc5-int" {
			k = "cvc5 1.0 --solve-bv-as-int=sum"
		}
		if !seen[k] {
			seen[k] = true
			out = append(out, k)
		}
	}
	return out
}
