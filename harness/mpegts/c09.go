package mpegts

import (
	vrt "github.com/q191201771/lal/pkg/zzvrt"
)

const mask33 = uint64(1)<<33 - 1

// c09CheckFrame packs one frame and checks it with the reference demuxer; returns number of packets.
func c09CheckFrame(f *Frame, cc0 uint8) int {
	n := len(f.Raw)
	out := f.Pack()
	vrt.Assert(len(out)%188 == 0 && len(out) > 0, "output is whole 188-byte packets")
	np := len(out) / 188
	var pes []byte
	for i := 0; i < np; i++ {
		p := refParseTsPacket(out[i*188 : i*188+188])
		vrt.Assert(p.ok, "TS packet well-formed")
		if !p.ok {
			return np
		}
		vrt.Assert(p.pid == f.Pid, "PID")
		vrt.Assert(p.pusi == (i == 0), "payload_unit_start only on first packet")
		vrt.Assert(p.cc == (cc0+uint8(i)+1)&0x0f, "continuity counter advances by one per packet")
		if i == 0 {
			vrt.Assert(p.rai == f.Key && p.pcrFlag == f.Key, "random access + PCR flags on first packet iff key")
			if f.Key {
				want := uint64(0)
				if f.Dts > delay {
					want = f.Dts - delay
				}
				vrt.Assert(p.pcrBase == want&mask33 && p.pcrExt == 0, "PCR value")
			}
		} else {
			vrt.Assert(!p.rai && !p.pcrFlag, "no PCR / random access on later packets")
		}
		vrt.Assert(len(p.payload) > 0, "packet carries payload")
		pes = append(pes, p.payload...)
	}
	vrt.Assert(f.Cc == cc0+uint8(np), "frame.Cc advanced by number of packets")
	h := refParsePes(pes)
	vrt.Assert(h.ok, "PES header well-formed")
	if !h.ok {
		return np
	}
	vrt.Assert(h.sid == f.Sid, "stream id")
	vrt.Assert(h.hasDts == (f.Pts != f.Dts), "DTS present iff PTS != DTS")
	vrt.Assert(h.pts == (f.Pts+delay)&mask33, "PTS = Pts + constant")
	if h.hasDts {
		vrt.Assert(h.dts == (f.Dts+delay)&mask33, "DTS = Dts + same constant")
	}
	if n+13 > 0xFFFF {
		// unbounded PES allowed (video)
	} else {
		vrt.Assert(h.pesLen != 0 || n+8 > 0xFFFF, "PES_packet_length set when it fits")
	}
	vrt.Assert(len(h.es) == n, "elementary payload length")
	for i := 0; i < n && i < len(h.es); i++ {
		vrt.Assert(h.es[i] == f.Raw[i], "elementary payload bytes")
	}
	return np
}

// VerifC09Pack: Frame.Pack for a symbolic frame of len bytes.
func VerifC09Pack() {
	n := vrt.Param("len")
	f := &Frame{
		Pts: vrt.U64("pts"),
		Dts: vrt.U64("dts"),
		Cc:  vrt.U8("cc"),
		Pid: vrt.U16("pid"),
		Sid: vrt.U8("sid"),
		Key: vrt.Bool("key"),
		Raw: vrt.Bytes("raw", n),
	}
	vrt.Assume(f.Pid < 0x2000)
	vrt.Assume(f.Pts < 1<<33 && f.Dts < 1<<33)
	cc0 := f.Cc
	c09CheckFrame(f, cc0)
	vrt.Cover("end")
}

// VerifC09TwoFrames: continuity across two consecutive frames on one PID.
func VerifC09TwoFrames() {
	n1, n2 := vrt.Param("len1"), vrt.Param("len2")
	f := &Frame{Pts: vrt.U64("pts"), Dts: vrt.U64("dts"), Cc: vrt.U8("cc"), Pid: vrt.U16("pid"), Sid: vrt.U8("sid"), Key: vrt.Bool("key"), Raw: vrt.Bytes("raw", n1)}
	vrt.Assume(f.Pid < 0x2000)
	vrt.Assume(f.Pts < 1<<33 && f.Dts < 1<<33)
	cc0 := f.Cc
	np := c09CheckFrame(f, cc0)
	f.Raw = vrt.Bytes("raw2", n2)
	f.Key = vrt.Bool("key2")
	f.Pts = vrt.U64("pts2")
	f.Dts = vrt.U64("dts2")
	vrt.Assume(f.Pts < 1<<33 && f.Dts < 1<<33)
	c09CheckFrame(f, cc0+uint8(np))
	vrt.Cover("end")
}

// VerifC09Psi: PAT and PMT for arbitrary codec ids.
func VerifC09Psi() {
	pat := PackPat()
	vrt.Assert(len(pat) == 188, "PAT is one packet")
	p := refParsePsiPacket(pat, 0)
	vrt.Assert(p.ok, "PAT well-formed with valid CRC")
	vrt.Assert(p.tableId == 0 && p.pmtPid == PidPmt, "PAT points at the PMT PID")

	v, a := vrt.Int("vcodec"), vrt.Int("acodec")
	pmt := PackPmt(v, a)
	vrt.Assert(len(pmt) == 188, "PMT is one packet")
	m := refParsePsiPacket(pmt, PidPmt)
	vrt.Assert(m.ok, "PMT well-formed with valid CRC")
	if !m.ok {
		return
	}
	vrt.Assert(m.tableId == 2 && m.progNum == 1, "PMT table id / program number")
	vrt.Assert(m.pcrPid == PidVideo, "PCR PID is the video PID")
	wantV := uint8(0)
	if v == 7 {
		wantV = 0x1b
	} else if v == 12 {
		wantV = 0x24
	}
	wantA := uint8(0)
	if a == 10 {
		wantA = 0x0f
	} else if a == 13 {
		wantA = 0x06
	}
	n := 0
	if wantV != 0 {
		vrt.Assert(len(m.streams) > n && m.streams[n].streamType == wantV && m.streams[n].pid == PidVideo && len(m.streams[n].desc) == 0, "video stream entry")
		n++
	}
	if wantA != 0 {
		vrt.Assert(len(m.streams) > n && m.streams[n].streamType == wantA && m.streams[n].pid == PidAudio, "audio stream entry")
		if len(m.streams) > n {
			d := m.streams[n].desc
			if a == 13 {
				// registration descriptor 'Opus' + extension descriptor 0x80 with channel config
				vrt.Assert(len(d) == 10 && d[0] == 0x05 && d[1] == 4 && d[2] == 'O' && d[3] == 'p' && d[4] == 'u' && d[5] == 's' && d[6] == 0x7f && d[7] == 2 && d[8] == 0x80, "Opus descriptors")
			} else {
				vrt.Assert(len(d) == 0, "no descriptors for AAC")
			}
		}
		n++
	}
	vrt.Assert(len(m.streams) == n, "PMT declares exactly the stream's codecs")
	vrt.Cover("end")
}
