package sym

import (
	"fmt"
	"go/types"
	"strings"

	"golang.org/x/tools/go/ssa"
)

// Value is a symbolic Go value:
//
//	*Term            integers (bit-vectors), bools, floats (IEEE bit pattern as BV64/BV32)
//	Ptr              pointer to a memory location (or symbolic element of an array)
//	Slice            slice header with concrete offset/len/cap over an array location
//	Str              string as a sequence of byte terms
//	*Struct, *Array  aggregates by value
//	Iface            interface value with concrete dynamic type
//	*Func            function / closure / bound method
//	Map              map reference
//	Chan             channel reference
//	Tuple            multiple results
//	*Iter            range iterator
type Value interface{}

// Loc is a memory location; aggregates are trees of locations so that
// field and element addresses alias their parents.
type Loc struct {
	T types.Type
	V Value  // leaf
	F []*Loc // struct fields
	E []*Loc // array elements
}

type Ptr struct {
	L *Loc
	// symbolic element pointer: element Idx of array location Arr (L == nil)
	Arr *Loc
	Idx *Term
	// Ext marks an opaque external object (e.g. *os.File) identified by name
	Ext string
}

func (p Ptr) IsNil() bool { return p.L == nil && p.Arr == nil && p.Ext == "" }

type Slice struct {
	Arr           *Loc
	Off, Len, Cap int
}

type Str struct{ B []*Term }

type Struct struct{ F []Value }
type Array struct{ E []Value }

type Iface struct {
	T types.Type // nil for nil interface
	V Value
}

type Func struct {
	Fn      *ssa.Function
	Bind    []Value
	Builtin *ssa.Builtin
	// Native, if set, is called instead of Fn (used for synthesized closures).
	Native func(ex *Exec, args []Value) Value
}

type mapEntry struct {
	K, V Value
}

type MapObj struct {
	T       *types.Map
	Entries []*mapEntry
}

type Map struct{ M *MapObj }

type ChanObj struct {
	T      *types.Chan
	Buf    []Value
	Cap    int
	Closed bool
}

type Chan struct{ C *ChanObj }

type Tuple []Value

type Iter struct {
	isStr   bool
	str     Str
	pos     int
	entries []*mapEntry
}

func (s Str) Concrete() (string, bool) {
	var sb strings.Builder
	for _, b := range s.B {
		if b.Op != OConst {
			return "", false
		}
		sb.WriteByte(byte(b.Val))
	}
	return sb.String(), true
}

func (ex *Exec) mkStr(s string) Str {
	b := make([]*Term, len(s))
	for i := 0; i < len(s); i++ {
		b[i] = ex.byteConst(s[i])
	}
	return Str{B: b}
}

func (ex *Exec) byteConst(b byte) *Term {
	if ex.byteTab[b] == nil {
		ex.byteTab[b] = ex.st.Const(8, uint64(b))
	}
	return ex.byteTab[b]
}

// typeWidth returns the bit width for basic numeric types (0 for bool handled separately).
func typeWidth(t types.Type) int {
	switch b := t.Underlying().(type) {
	case *types.Basic:
		switch b.Kind() {
		case types.Int8, types.Uint8:
			return 8
		case types.Int16, types.Uint16:
			return 16
		case types.Int32, types.Uint32, types.Float32:
			return 32
		case types.Int, types.Uint, types.Int64, types.Uint64, types.Uintptr, types.Float64,
			types.UntypedInt, types.UntypedFloat, types.UntypedRune:
			return 64
		}
	}
	return -1
}

func isSigned(t types.Type) bool {
	if b, ok := t.Underlying().(*types.Basic); ok {
		return b.Info()&types.IsInteger != 0 && b.Info()&types.IsUnsigned == 0
	}
	return false
}

func isFloat(t types.Type) bool {
	if b, ok := t.Underlying().(*types.Basic); ok {
		return b.Info()&types.IsFloat != 0
	}
	return false
}

func isInteger(t types.Type) bool {
	if b, ok := t.Underlying().(*types.Basic); ok {
		return b.Info()&types.IsInteger != 0
	}
	return false
}

func isBool(t types.Type) bool {
	if b, ok := t.Underlying().(*types.Basic); ok {
		return b.Info()&types.IsBoolean != 0
	}
	return false
}

func isString(t types.Type) bool {
	if b, ok := t.Underlying().(*types.Basic); ok {
		return b.Info()&types.IsString != 0
	}
	return false
}

// zero returns the zero value of type t.
func (ex *Exec) zero(t types.Type) Value {
	switch u := t.Underlying().(type) {
	case *types.Basic:
		switch {
		case u.Info()&types.IsBoolean != 0:
			return ex.st.F
		case u.Info()&types.IsString != 0:
			return Str{}
		case u.Kind() == types.UnsafePointer:
			return Ptr{}
		case u.Kind() == types.UntypedNil:
			return Ptr{}
		}
		w := typeWidth(u)
		if w < 0 {
			ex.unsupported("zero of basic type " + u.String())
		}
		return ex.st.Const(w, 0)
	case *types.Pointer:
		return Ptr{}
	case *types.Slice:
		return Slice{}
	case *types.Map:
		return Map{}
	case *types.Chan:
		return Chan{}
	case *types.Signature:
		return (*Func)(nil)
	case *types.Interface:
		return Iface{}
	case *types.Struct:
		f := make([]Value, u.NumFields())
		for i := range f {
			f[i] = ex.zero(u.Field(i).Type())
		}
		return &Struct{F: f}
	case *types.Array:
		n := int(u.Len())
		e := make([]Value, n)
		if n > 0 {
			z := ex.zero(u.Elem())
			for i := range e {
				if i == 0 || isImmutable(z) {
					e[i] = z
				} else {
					e[i] = ex.zero(u.Elem())
				}
			}
		}
		return &Array{E: e}
	case *types.Tuple:
		tp := make(Tuple, u.Len())
		for i := range tp {
			tp[i] = ex.zero(u.At(i).Type())
		}
		return tp
	}
	ex.unsupported("zero of type " + t.String())
	return nil
}

func isImmutable(v Value) bool {
	switch v.(type) {
	case *Struct, *Array:
		return false
	}
	return true
}

// newLoc allocates a zero-initialised location of type t.
func (ex *Exec) newLoc(t types.Type) *Loc {
	l := &Loc{T: t}
	switch u := t.Underlying().(type) {
	case *types.Struct:
		l.F = make([]*Loc, u.NumFields())
		for i := range l.F {
			l.F[i] = ex.newLoc(u.Field(i).Type())
		}
	case *types.Array:
		l.E = ex.newElems(u.Elem(), int(u.Len()))
	default:
		l.V = ex.zero(t)
	}
	return l
}

func (ex *Exec) newElems(et types.Type, n int) []*Loc {
	e := make([]*Loc, n)
	switch et.Underlying().(type) {
	case *types.Struct, *types.Array:
		for i := range e {
			e[i] = ex.newLoc(et)
		}
	default:
		backing := make([]Loc, n)
		var z Value
		if n > 0 {
			z = ex.zero(et)
		}
		for i := range e {
			backing[i].T = et
			backing[i].V = z
			e[i] = &backing[i]
		}
	}
	return e
}

// newArrayLoc allocates an array location with n elements of type et (backing of a slice).
func (ex *Exec) newArrayLoc(et types.Type, n int) *Loc {
	return &Loc{T: types.NewArray(et, int64(n)), E: ex.newElems(et, n)}
}

func (ex *Exec) load(l *Loc) Value {
	switch {
	case l.F != nil:
		f := make([]Value, len(l.F))
		for i, x := range l.F {
			f[i] = ex.load(x)
		}
		return &Struct{F: f}
	case l.E != nil:
		e := make([]Value, len(l.E))
		for i, x := range l.E {
			e[i] = ex.load(x)
		}
		return &Array{E: e}
	}
	if _, ok := l.T.Underlying().(*types.Struct); ok && l.V == nil {
		return &Struct{}
	}
	if _, ok := l.T.Underlying().(*types.Array); ok && l.V == nil {
		return &Array{}
	}
	return l.V
}

func (ex *Exec) store(l *Loc, v Value) {
	switch {
	case l.F != nil:
		sv, ok := v.(*Struct)
		if !ok {
			panic(fmt.Sprintf("store non-struct %T into struct loc %s", v, l.T))
		}
		for i, x := range l.F {
			ex.store(x, sv.F[i])
		}
		return
	case l.E != nil:
		av, ok := v.(*Array)
		if !ok {
			panic(fmt.Sprintf("store non-array %T into array loc %s", v, l.T))
		}
		for i, x := range l.E {
			ex.store(x, av.E[i])
		}
		return
	}
	if ex.journal != nil {
		if _, ok := ex.journal[l]; !ok {
			ex.journal[l] = l.V
		}
	}
	l.V = v
}

// valueEq builds the condition a == b for comparable values.
func (ex *Exec) valueEq(a, b Value) *Term {
	st := ex.st
	switch x := a.(type) {
	case *Term:
		y, ok := b.(*Term)
		if !ok {
			return st.F
		}
		if x.W != y.W {
			panic(fmt.Sprintf("valueEq width mismatch %d/%d", x.W, y.W))
		}
		return st.Eq(x, y)
	case Str:
		y, ok := b.(Str)
		if !ok {
			return st.F
		}
		if len(x.B) != len(y.B) {
			return st.F
		}
		r := st.T
		for i := range x.B {
			r = st.And(r, st.Eq(x.B[i], y.B[i]))
			if r.IsFalse() {
				return r
			}
		}
		return r
	case Ptr:
		y, ok := b.(Ptr)
		if !ok {
			return st.F
		}
		if x.Arr != nil || y.Arr != nil {
			xl, yl := ex.resolvePtr(x), ex.resolvePtr(y)
			return st.Bool(xl == yl)
		}
		return st.Bool(x.L == y.L && x.Ext == y.Ext)
	case Iface:
		y, ok := b.(Iface)
		if !ok {
			return st.F
		}
		if x.T == nil || y.T == nil {
			return st.Bool(x.T == nil && y.T == nil)
		}
		if !types.Identical(x.T, y.T) {
			return st.F
		}
		return ex.valueEq(x.V, y.V)
	case *Struct:
		y := b.(*Struct)
		r := st.T
		for i := range x.F {
			r = st.And(r, ex.valueEq(x.F[i], y.F[i]))
		}
		return r
	case *Array:
		y := b.(*Array)
		r := st.T
		for i := range x.E {
			r = st.And(r, ex.valueEq(x.E[i], y.E[i]))
		}
		return r
	case *Func:
		y, _ := b.(*Func)
		return st.Bool(x == nil && y == nil)
	case Map:
		y, _ := b.(Map)
		return st.Bool(x.M == y.M)
	case Chan:
		y, _ := b.(Chan)
		return st.Bool(x.C == y.C)
	case Slice:
		y, _ := b.(Slice)
		return st.Bool(x.Arr == nil && y.Arr == nil)
	case nil:
		return st.Bool(b == nil)
	}
	ex.unsupported(fmt.Sprintf("valueEq on %T", a))
	return nil
}

func (ex *Exec) sliceElemType(t types.Type) types.Type {
	switch u := t.Underlying().(type) {
	case *types.Slice:
		return u.Elem()
	case *types.Array:
		return u.Elem()
	case *types.Pointer:
		return ex.sliceElemType(u.Elem())
	case *types.Basic:
		return types.Typ[types.Uint8]
	}
	return nil
}

// bytesOf returns the byte terms of a []byte slice value.
func (ex *Exec) bytesOf(s Slice) []*Term {
	out := make([]*Term, s.Len)
	for i := 0; i < s.Len; i++ {
		out[i] = s.Arr.E[s.Off+i].V.(*Term)
	}
	return out
}

// mkByteSlice makes a fresh []byte holding the given terms.
func (ex *Exec) mkByteSlice(b []*Term) Slice {
	arr := ex.newArrayLoc(types.Typ[types.Uint8], len(b))
	for i, t := range b {
		arr.E[i].V = t
	}
	return Slice{Arr: arr, Off: 0, Len: len(b), Cap: len(b)}
}
