package sym

import (
	"fmt"
	"go/constant"
	"go/token"
	"go/types"
	"math"
	"sort"
	"strings"
	"time"

	"golang.org/x/tools/go/ssa"
)

// ---- path control ----

type endKind int

const (
	endNormal endKind = iota
	endInfeasible
	endPanic       // definite panic already recorded
	endUnsupported // construct not encodable: run is inconclusive
	endUnwind      // loop / step budget exhausted
	endStop        // harness asked to stop the path
)

type pathEnd struct {
	kind endKind
	msg  string
}

// goPanic models a Go panic that unwinds towards a deferred recover().
type goPanic struct {
	val  Value
	kind string
}

type decision struct {
	isChoice bool
	val      bool
	alt      bool
	cur      uint64
	tried    []uint64
	more     bool
}

// Finding is a property violation candidate found on some path.
type Finding struct {
	Kind   string            `json:"kind"` // panic | assert | unwind | depth
	Label  string            `json:"label"`
	Site   string            `json:"site"`
	Pos    string            `json:"pos"`
	Stack  []string          `json:"stack,omitempty"`
	Model  map[string]uint64 `json:"model"`
	Detail string            `json:"detail,omitempty"`
}

func (f *Finding) Key() string { return f.Kind + "|" + f.Label + "|" + f.Site }

// Options for one harness instance.
type Options struct {
	Params        map[string]int
	MaxPaths      int
	InstanceMs    int // wall-clock budget of one instance (0 = none)
	MaxSteps      int // per path
	LoopBudget    int // symbolic decisions per block per activation
	MaxRecursion  int // same-function recursion depth treated as finding "depth"
	ChoiceLimit   int // values explored per concretisation
	SuppressSites map[string]bool
}

// Stats collected per instance.
type Stats struct {
	Paths         int
	PathsNormal   int
	PathsInfeas   int
	PathsPanic    int
	Steps         int64
	Obligations   int // safety obligations and asserts examined
	ObSolver      int // of those, decided by the solver
	ObSimplifier  int // decided syntactically
	Asserts       int
	Covers        map[string]int
	Truncations   map[string]int
	Placeholders  map[string]int // formatted text that holds a placeholder instead of real characters, by site
	Unsupported   map[string]int
	Unwinds       map[string]int
	ReachSat      int
	CacheHits     int
	Merges        int
	FuncsExecuted map[string]bool
}

type funcInfo struct {
	index map[ssa.Value]int
	n     int
}

type frame struct {
	fn      *ssa.Function
	regs    []Value
	info    *funcInfo
	defers  []deferred
	visits  map[*ssa.BasicBlock]int
	result  Value
	curInst ssa.Instruction
	// phi values computed by a merged diamond for the join block
	phiOverride map[*ssa.Phi]Value
	phiBlock    *ssa.BasicBlock
}

type deferred struct {
	fn   Value
	args []Value
	call *ssa.CallCommon
}

// Exec executes one harness instance over all feasible paths.
type Exec struct {
	prog *ssa.Program
	st   *Store
	sol  *Solver
	opt  Options

	// per path
	pc           []*Term
	trail        []decision
	depth        int
	globals      map[*ssa.Global]*Loc
	initState    map[*ssa.Package]int
	steps        int
	inputs       []*Term
	tagCount     map[string]int
	stack        []*frame
	recDepth     map[*ssa.Function]int
	onceDone     map[*Loc]bool
	clock        *Term
	ghost        []string
	extState     map[string]Value
	pathSites    map[string]bool
	inputMeta    map[string]InputMeta
	pcKey        uint64
	panicking    *goPanic
	spec         int
	guard        *Term
	journal      map[*Loc]Value
	minfo        map[*ssa.BasicBlock]*mergeInfo
	NoMerge      bool
	Deadline     time.Time // wall-clock budget of the instance (zero = none)
	NoEarlyStop  bool      // explore to the end even after a finding (harnesses with a listed known finding)
	firstFinding time.Time
	md5Seen      []md5Entry // digests taken on this path (collision-free abstraction)
	qcache       map[[2]uint64]Result
	initTarget   *ssa.Function

	// per instance
	Findings    []*Finding
	seen        map[string]bool
	Stats       Stats
	finfo       map[*ssa.Function]*funcInfo
	findingMeta map[*Finding]map[string]InputMeta
	byteTab     [256]*Term
	Trace       bool
	Progress    func(*Exec)
	// Witness is a model of the first completed path (inputs on which every assertion held symbolically);
	// the driver replays it natively to cross-check the executor against the compiled code
	Witness     map[string]uint64
	WitnessMeta map[string]InputMeta
	LastEnd     string
	intr        map[string]intrinsic
	vrtPath     string
}

func NewExec(prog *ssa.Program, opt Options, solverKind string, timeoutMs int) (*Exec, error) {
	st := NewStore()
	sol, err := NewSolver(solverKind, st, timeoutMs)
	if err != nil {
		return nil, err
	}
	if opt.MaxPaths == 0 {
		opt.MaxPaths = 200000
	}
	if opt.MaxSteps == 0 {
		opt.MaxSteps = 20000000
	}
	if opt.LoopBudget == 0 {
		opt.LoopBudget = 4096
	}
	if opt.MaxRecursion == 0 {
		opt.MaxRecursion = 128
	}
	if opt.ChoiceLimit == 0 {
		opt.ChoiceLimit = 64
	}
	ex := &Exec{prog: prog, st: st, sol: sol, opt: opt, seen: map[string]bool{}, finfo: map[*ssa.Function]*funcInfo{}, findingMeta: map[*Finding]map[string]InputMeta{}}
	ex.Stats.Covers = map[string]int{}
	ex.Stats.Truncations = map[string]int{}
	ex.Stats.Unsupported = map[string]int{}
	ex.Stats.Unwinds = map[string]int{}
	ex.Stats.FuncsExecuted = map[string]bool{}
	ex.intr = buildIntrinsics()
	return ex, nil
}

func (ex *Exec) Close() { ex.sol.Close() }

func (ex *Exec) Solver() *Solver { return ex.sol }
func (ex *Exec) Store() *Store   { return ex.st }

// Run explores every feasible path of the harness function.
func (ex *Exec) Run(fn *ssa.Function) {
	ex.trail = nil
	for {
		if ex.Stats.Paths >= ex.opt.MaxPaths {
			ex.Stats.Unwinds["max-paths"]++
			return
		}
		if len(ex.Findings) > 0 && !ex.NoEarlyStop {
			// an instance that already has a counterexample need not be exhausted: give it 20 more seconds
			if ex.firstFinding.IsZero() {
				ex.firstFinding = time.Now()
			} else if time.Since(ex.firstFinding) > 20*time.Second {
				ex.Stats.Unwinds["stopped-after-finding"]++
				return
			}
		}
		if !ex.Deadline.IsZero() && time.Now().After(ex.Deadline) {
			// wall-clock budget of the instance: exploration is incomplete, reported as a truncation
			ex.Stats.Unwinds["instance-budget"]++
			return
		}
		ex.runPath(fn)
		if ex.Progress != nil {
			ex.Progress(ex)
		}
		// backtrack
		for len(ex.trail) > 0 {
			d := &ex.trail[len(ex.trail)-1]
			if d.isChoice {
				if d.more {
					d.tried = append(d.tried, d.cur)
					d.more = false
					d.cur = ^uint64(0)
					d.alt = true // marks "needs a new value"
					break
				}
			} else if d.alt {
				d.val = !d.val
				d.alt = false
				break
			}
			ex.trail = ex.trail[:len(ex.trail)-1]
		}
		if len(ex.trail) == 0 {
			return
		}
	}
}

func (ex *Exec) runPath(fn *ssa.Function) {
	ex.pc = nil
	ex.pcKey = 14695981039346656037
	ex.depth = 0
	ex.globals = map[*ssa.Global]*Loc{}
	ex.initState = map[*ssa.Package]int{}
	ex.steps = 0
	ex.inputs = nil
	ex.tagCount = map[string]int{}
	ex.stack = nil
	ex.recDepth = map[*ssa.Function]int{}
	ex.onceDone = map[*Loc]bool{}
	ex.clock = nil
	ex.ghost = nil
	ex.extState = map[string]Value{}
	ex.md5Seen = nil
	ex.pathSites = map[string]bool{}
	ex.inputMeta = map[string]InputMeta{}
	ex.panicking = nil
	ex.initTarget = nil
	ex.sol.Reset()
	ex.Stats.Paths++
	defer func() {
		ex.Stats.Steps += int64(ex.steps)
		if r := recover(); r != nil {
			pe, ok := r.(pathEnd)
			if !ok {
				panic(r)
			}
			ex.LastEnd = fmt.Sprintf("%d %s", pe.kind, pe.msg)
			switch pe.kind {
			case endInfeasible:
				ex.Stats.PathsInfeas++
			case endPanic:
				ex.Stats.PathsPanic++
			case endUnsupported:
				ex.Stats.Unsupported[pe.msg]++
			case endUnwind:
				ex.Stats.Unwinds[pe.msg]++
			case endStop:
				ex.Stats.PathsNormal++
			}
			return
		}
		ex.Stats.PathsNormal++
		if ex.Witness == nil && len(ex.inputs) > 0 {
			if m := ex.model(nil); m != nil {
				ex.Witness = m
				ex.WitnessMeta = ex.copyMeta()
			}
		}
	}()
	ex.callFunction(fn, nil)
}

func (ex *Exec) unsupported(msg string) {
	if ex.Trace {
		fmt.Printf("UNSUPPORTED %s at %s\n", msg, ex.where())
	}
	panic(pathEnd{endUnsupported, msg + " @" + ex.whereFn()})
}

func (ex *Exec) whereFn() string {
	if len(ex.stack) == 0 {
		return "?"
	}
	return ex.stack[len(ex.stack)-1].fn.String()
}

func (ex *Exec) where() string {
	if len(ex.stack) == 0 {
		return "?"
	}
	fr := ex.stack[len(ex.stack)-1]
	pos := token.NoPos
	if fr.curInst != nil {
		pos = fr.curInst.Pos()
	}
	return fr.fn.String() + " " + ex.prog.Fset.Position(pos).String()
}

// whereCaller names the function on top of the stack (intrinsics run in their caller's frame).
func (ex *Exec) whereCaller() string {
	if len(ex.stack) == 0 {
		return "?"
	}
	return ex.stack[len(ex.stack)-1].fn.String()
}

// assume adds a conjunct to the path condition.
func (ex *Exec) assume(c *Term) {
	if c.IsTrue() {
		return
	}
	if c.IsFalse() {
		panic(pathEnd{endInfeasible, ""})
	}
	ex.pc = append(ex.pc, c)
	ex.pcKey = ex.pcKey*1099511628211 ^ uint64(c.ID+1)*0x9E3779B97F4A7C15
}

func (ex *Exec) check(extra *Term) Result {
	if extra != nil {
		if ex.qcache == nil {
			ex.qcache = map[[2]uint64]Result{}
		}
		k := [2]uint64{ex.pcKey, uint64(extra.ID)}
		if r, ok := ex.qcache[k]; ok {
			ex.Stats.CacheHits++
			return r
		}
		r, _ := ex.sol.Check(ex.pc, extra, nil)
		if r != Unknown {
			ex.qcache[k] = r
		}
		return r
	}
	r, _ := ex.sol.Check(ex.pc, extra, nil)
	return r
}

// decide forks on a boolean condition.
func (ex *Exec) decide(c *Term) bool {
	if c.IsTrue() {
		return true
	}
	if c.IsFalse() {
		return false
	}
	if ex.spec > 0 {
		panic(specAbort{})
	}
	d := ex.depth
	ex.depth++
	if d < len(ex.trail) {
		b := ex.trail[d].val
		if b {
			ex.assume(c)
		} else {
			ex.assume(ex.st.Not(c))
		}
		return b
	}
	if ex.Trace {
		fmt.Printf("DECIDE %s\n", ex.where())
	}
	rt := ex.check(c)
	var rf Result
	if rt == Unsat {
		rf = Sat // pc is feasible by construction
		// but verify cheaply only if pc feasibility is in doubt (never here)
	} else {
		rf = ex.check(ex.st.Not(c))
	}
	if rt == Unknown || rf == Unknown {
		ex.Stats.Unsupported["solver-unknown-on-branch"]++
	}
	tOK := rt != Unsat
	fOK := rf != Unsat
	switch {
	case tOK && fOK:
		ex.trail = append(ex.trail, decision{val: true, alt: true})
		ex.assume(c)
		return true
	case tOK:
		ex.trail = append(ex.trail, decision{val: true})
		ex.assume(c)
		return true
	case fOK:
		ex.trail = append(ex.trail, decision{val: false})
		ex.assume(ex.st.Not(c))
		return false
	}
	panic(pathEnd{endInfeasible, ""})
}

// choose concretises a bit-vector term, forking over its feasible values (up to the choice limit).
func (ex *Exec) choose(t *Term, why string) uint64 {
	if t.Op == OConst {
		return t.Val
	}
	if ex.spec > 0 {
		panic(specAbort{})
	}
	d := ex.depth
	ex.depth++
	if d < len(ex.trail) && !(ex.trail[d].isChoice && ex.trail[d].alt) {
		v := ex.trail[d].cur
		ex.assume(ex.st.Eq(t, ex.st.Const(t.W, v)))
		return v
	}
	var dec *decision
	if d < len(ex.trail) {
		dec = &ex.trail[d]
		dec.alt = false
	} else {
		ex.trail = append(ex.trail, decision{isChoice: true})
		dec = &ex.trail[d]
	}
	// exclude tried values
	excl := ex.st.T
	for _, v := range dec.tried {
		excl = ex.st.And(excl, ex.st.Not(ex.st.Eq(t, ex.st.Const(t.W, v))))
	}
	var v uint64
	switch len(dec.tried) {
	case 0:
		v = ex.extreme(t, excl, false)
	case 1:
		v = ex.extreme(t, excl, true)
	default:
		pv := ex.st.Var(fmt.Sprintf("choose_probe%d", t.W), t.W)
		r, m := ex.sol.Check(ex.pc, ex.st.And(excl, ex.st.Eq(pv, t)), []*Term{pv})
		if r != Sat || m == nil {
			panic(pathEnd{endInfeasible, ""})
		}
		v = m[pv.Name]
	}
	dec.cur = v
	eqv := ex.st.Eq(t, ex.st.Const(t.W, v))
	// more values?
	rest := ex.st.And(excl, ex.st.Not(eqv))
	if len(dec.tried)+1 >= ex.opt.ChoiceLimit {
		if ex.check(rest) != Unsat {
			ex.Stats.Truncations[why+" @"+ex.whereFn()]++
		}
		dec.more = false
	} else {
		dec.more = ex.check(rest) != Unsat
	}
	ex.assume(eqv)
	return v
}

// extreme finds the unsigned minimum (or maximum) feasible value of t under pc ∧ excl by binary search on bits.
func (ex *Exec) extreme(t *Term, excl *Term, wantMax bool) uint64 {
	st := ex.st
	if ex.check(excl) == Unsat {
		panic(pathEnd{endInfeasible, ""})
	}
	var v uint64
	cond := excl
	for i := t.W - 1; i >= 0; i-- {
		bit := st.Extract(t, i, i)
		want := uint64(0)
		if wantMax {
			want = 1
		}
		c := st.And(cond, st.Eq(bit, st.Const(1, want)))
		if ex.check(c) != Unsat {
			cond = c
			v |= want << uint(i)
		} else {
			cond = st.And(cond, st.Eq(bit, st.Const(1, 1-want)))
			v |= (1 - want) << uint(i)
		}
	}
	return v
}

// model returns input values satisfying pc ∧ extra.
func (ex *Exec) model(extra *Term) map[string]uint64 {
	r, m := ex.sol.Check(ex.pc, extra, ex.inputs)
	if r != Sat {
		return nil
	}
	if m == nil {
		m = map[string]uint64{}
	}
	return m
}

func (ex *Exec) siteOf() (site, pos string, stack []string) {
	for i := len(ex.stack) - 1; i >= 0; i-- {
		stack = append(stack, ex.stack[i].fn.String())
	}
	if len(stack) > 12 {
		stack = stack[:12]
	}
	// innermost frame that is not standard library / vrt
	for i := len(ex.stack) - 1; i >= 0; i-- {
		fr := ex.stack[i]
		p := ""
		if fr.fn.Pkg != nil {
			p = fr.fn.Pkg.Pkg.Path()
		} else if fr.fn.Origin() != nil && fr.fn.Origin().Pkg != nil {
			p = fr.fn.Origin().Pkg.Pkg.Path()
		}
		if strings.Contains(p, "q191201771/lal") && !strings.HasSuffix(p, "zzvrt") && !strings.HasSuffix(p, "zzvkit") { // innermost lal frame
			site = fr.fn.String()
			if fr.curInst != nil {
				pos = ex.prog.Fset.Position(fr.curInst.Pos()).String()
			}
			if strings.Contains(fr.fn.Name(), "Verif") && i < len(ex.stack)-1 {
				// harness frame: name the callee that failed as well
				site = fr.fn.String() + ">" + ex.stack[i+1].fn.String()
			}
			return
		}
	}
	if len(ex.stack) > 0 {
		site = ex.stack[len(ex.stack)-1].fn.String()
	}
	return
}

func (ex *Exec) record(kind, label, detail string, model map[string]uint64) {
	site, pos, stack := ex.siteOf()
	f := &Finding{Kind: kind, Label: label, Site: site, Pos: pos, Stack: stack, Model: model, Detail: detail}
	if ex.seen[f.Key()] {
		return
	}
	ex.seen[f.Key()] = true
	ex.Findings = append(ex.Findings, f)
	ex.findingMeta[f] = ex.copyMeta()
}

func (ex *Exec) copyMeta() map[string]InputMeta {
	m := make(map[string]InputMeta, len(ex.inputMeta))
	for k, v := range ex.inputMeta {
		m[k] = v
	}
	return m
}

// require emits the safety obligation "safe holds here"; on violation records a panic-site finding
// and continues under the assumption that it holds.
func (ex *Exec) require(safe *Term, kind string) {
	ex.Stats.Obligations++
	if safe.IsTrue() {
		ex.Stats.ObSimplifier++
		return
	}
	if ex.guard != nil {
		safe = ex.st.Implies(ex.guard, safe)
		if safe.IsTrue() {
			ex.Stats.ObSimplifier++
			return
		}
	}
	if ex.recoverPending() {
		// the panic would be caught by a deferred recover(): both outcomes are ordinary control flow
		if ex.decide(safe) {
			return
		}
		panic(goPanic{val: Iface{T: types.Typ[types.String], V: ex.mkStr("runtime error: " + kind)}, kind: kind})
	}
	site, _, _ := ex.siteOf()
	key := "panic|" + kind + "|" + site
	if safe.IsFalse() {
		ex.Stats.ObSimplifier++
		if !ex.seen[key] && !ex.opt.SuppressSites[key] {
			m := ex.model(nil)
			if m == nil { // path condition no longer satisfiable (after an assumed obligation)
				panic(pathEnd{endInfeasible, ""})
			}
			ex.record("panic", kind, "", m)
		}
		panic(pathEnd{endPanic, kind})
	}
	if ex.seen[key] || ex.opt.SuppressSites[key] {
		// already reported (or listed as known): continue on the safe side only
		ex.assume(safe)
		return
	}
	ex.Stats.ObSolver++
	bad := ex.st.Not(safe)
	if ex.check(bad) == Unsat {
		return
	}
	r, m := ex.sol.Check(ex.pc, bad, ex.inputs)
	switch r {
	case Sat:
		ex.record("panic", kind, "", m)
		ex.assume(safe)
	case Unknown:
		ex.Stats.Unsupported["solver-unknown-on-obligation"]++
		ex.assume(safe)
	}
}

// Assert is the harness-level functional obligation.
func (ex *Exec) assertOb(c *Term, label string) {
	ex.Stats.Obligations++
	ex.Stats.Asserts++
	if c.IsTrue() {
		ex.Stats.ObSimplifier++
		return
	}
	key := "assert|" + label + "|"
	if ex.opt.SuppressSites[key] {
		ex.assume(c)
		return
	}
	if c.IsFalse() {
		ex.Stats.ObSimplifier++
		m := ex.model(nil)
		if m == nil {
			panic(pathEnd{endInfeasible, ""})
		}
		ex.recordAssert(label, m)
		panic(pathEnd{endPanic, "assert " + label})
	}
	if ex.seen[key] {
		ex.assume(c)
		return
	}
	ex.Stats.ObSolver++
	if ex.check(ex.st.Not(c)) == Unsat {
		return
	}
	r, m := ex.sol.Check(ex.pc, ex.st.Not(c), ex.inputs)
	switch r {
	case Sat:
		ex.recordAssert(label, m)
		ex.assume(c)
	case Unknown:
		ex.Stats.Unsupported["solver-unknown-on-assert:"+label]++
		ex.assume(c)
	}
}

func (ex *Exec) recordAssert(label string, m map[string]uint64) {
	f := &Finding{Kind: "assert", Label: label, Model: m}
	_, f.Pos, f.Stack = ex.siteOf()
	if ex.seen[f.Key()] {
		return
	}
	ex.seen[f.Key()] = true
	ex.Findings = append(ex.Findings, f)
	ex.findingMeta[f] = ex.copyMeta()
}

// ---- function calls ----

func (ex *Exec) info(fn *ssa.Function) *funcInfo {
	if fi, ok := ex.finfo[fn]; ok {
		return fi
	}
	fi := &funcInfo{index: map[ssa.Value]int{}}
	add := func(v ssa.Value) {
		fi.index[v] = fi.n
		fi.n++
	}
	for _, p := range fn.Params {
		add(p)
	}
	for _, p := range fn.FreeVars {
		add(p)
	}
	for _, b := range fn.Blocks {
		for _, in := range b.Instrs {
			if v, ok := in.(ssa.Value); ok {
				add(v)
			}
		}
	}
	ex.finfo[fn] = fi
	return fi
}

func (ex *Exec) callFunction(fn *ssa.Function, args []Value) Value {
	return ex.callClosure(fn, args, nil)
}

func (ex *Exec) callClosure(fn *ssa.Function, args []Value, bind []Value) Value {
	name := fn.String()
	if in, ok := ex.intr[name]; ok {
		return in(ex, fn, args)
	}
	if in := ex.intrinsicByPattern(fn, name); in != nil {
		return in(ex, fn, args)
	}
	if fn.Blocks == nil {
		if fn.Synthetic != "" {
			ex.unsupported("synthetic function without body: " + name)
		}
		ex.unsupported("no body: " + name)
	}
	if len(ex.stack) > 5000 {
		ex.record("depth", "call-stack>5000", "", ex.model(nil))
		panic(pathEnd{endPanic, "stack"})
	}
	ex.recDepth[fn]++
	if ex.recDepth[fn] > ex.opt.MaxRecursion {
		ex.recDepth[fn]--
		ex.record("depth", fmt.Sprintf("recursion>%d", ex.opt.MaxRecursion), fn.String(), ex.model(nil))
		panic(pathEnd{endPanic, "recursion"})
	}
	ex.Stats.FuncsExecuted[name] = true
	fi := ex.info(fn)
	fr := &frame{fn: fn, info: fi, regs: make([]Value, fi.n)}
	for i, p := range fn.Params {
		if i < len(args) {
			fr.regs[fi.index[p]] = args[i]
		}
	}
	for i, p := range fn.FreeVars {
		fr.regs[fi.index[p]] = bind[i]
	}
	ex.stack = append(ex.stack, fr)
	depth := len(ex.stack)
	ex.runFrameGuarded(fr, depth)
	ex.stack = ex.stack[:depth-1]
	ex.recDepth[fn]--
	return fr.result
}

// runFrameGuarded runs a frame; a modelled Go panic (goPanic) unwinds through the frame's deferred
// calls and stops at a frame whose deferred function recovered it.
func (ex *Exec) runFrameGuarded(fr *frame, depth int) {
	defer func() {
		r := recover()
		if r == nil {
			return
		}
		gp, ok := r.(goPanic)
		if !ok {
			panic(r)
		}
		ex.stack = ex.stack[:depth]
		ex.panicking = &gp
		for len(fr.defers) > 0 {
			d := fr.defers[len(fr.defers)-1]
			fr.defers = fr.defers[:len(fr.defers)-1]
			ex.callValue(d.call, d.fn, d.args)
		}
		if ex.panicking != nil {
			ex.stack = ex.stack[:depth-1]
			ex.recDepth[fr.fn]--
			panic(gp)
		}
		// recovered: continue in the function's recover block (returns the named results)
		if fr.fn.Recover != nil {
			ex.runFrameFrom(fr, fr.fn.Recover)
		} else {
			fr.result = ex.zeroResult(fr.fn)
		}
	}()
	ex.runFrame(fr)
}

func (ex *Exec) runFrame(fr *frame) { ex.runFrameFrom(fr, fr.fn.Blocks[0]) }

func (ex *Exec) runFrameFrom(fr *frame, b *ssa.BasicBlock) {
	var prev *ssa.BasicBlock
	for {
		var next *ssa.BasicBlock
		for _, in := range b.Instrs {
			ex.steps++
			if ex.steps > ex.opt.MaxSteps {
				panic(pathEnd{endUnwind, "step-limit in " + fr.fn.String()})
			}
			fr.curInst = in
			switch i := in.(type) {
			case *ssa.Phi:
				if fr.phiOverride != nil && fr.phiBlock == b {
					if v, ok := fr.phiOverride[i]; ok {
						fr.regs[fr.info.index[i]] = v
						break
					}
				}
				for k, p := range b.Preds {
					if p == prev {
						fr.regs[fr.info.index[i]] = ex.get(fr, i.Edges[k])
						break
					}
				}
			case *ssa.If:
				c := ex.get(fr, i.Cond).(*Term)
				if !c.IsConst() {
					if fr.visits == nil {
						fr.visits = map[*ssa.BasicBlock]int{}
					}
					fr.visits[b]++
					if fr.visits[b] > ex.opt.LoopBudget {
						ex.record("unwind", "loop-budget", fmt.Sprintf("block %d of %s decided %d times", b.Index, fr.fn, fr.visits[b]), ex.model(nil))
						panic(pathEnd{endUnwind, "loop-budget in " + fr.fn.String()})
					}
				}
				if !c.IsConst() && !ex.NoMerge {
					if j, ok := ex.tryMerge(fr, b, c); ok {
						next = j
						break
					}
				}
				if ex.decide(c) {
					next = b.Succs[0]
				} else {
					next = b.Succs[1]
				}
			case *ssa.Jump:
				next = b.Succs[0]
			case *ssa.Return:
				switch len(i.Results) {
				case 0:
				case 1:
					fr.result = ex.get(fr, i.Results[0])
				default:
					t := make(Tuple, len(i.Results))
					for k, r := range i.Results {
						t[k] = ex.get(fr, r)
					}
					fr.result = t
				}
				return
			case *ssa.Panic:
				v := ex.get(fr, i.X)
				ex.explicitPanic(v)
			default:
				ex.step(fr, in)
			}
		}
		if next == nil {
			panic("block without terminator")
		}
		if fr.phiBlock == b {
			// merged phi values are valid only for the entry that followed the merge
			fr.phiOverride, fr.phiBlock = nil, nil
		}
		prev, b = b, next
	}
}

func (ex *Exec) explicitPanic(v Value) {
	msg := "explicit panic"
	if iv, ok := v.(Iface); ok {
		if s, ok := iv.V.(Str); ok {
			if cs, ok := s.Concrete(); ok {
				msg += ": " + cs
			}
		} else if iv.T != nil {
			msg += " of " + iv.T.String()
			if p, ok := iv.V.(Ptr); ok && p.L != nil && len(p.L.F) > 0 {
				if s, ok := p.L.F[0].V.(Str); ok {
					if cs, ok := s.Concrete(); ok {
						msg += ": " + cs
					}
				}
			}
		}
	}
	if ex.recoverPending() {
		panic(goPanic{val: v, kind: msg})
	}
	ex.require(ex.st.F, msg)
}

// recoverPending reports whether some active frame has a deferred closure that calls recover().
func (ex *Exec) recoverPending() bool {
	for _, fr := range ex.stack {
		for _, d := range fr.defers {
			if f, ok := d.fn.(*Func); ok && f != nil && f.Fn != nil && callsRecover(f.Fn) {
				return true
			}
		}
	}
	return false
}

func callsRecover(fn *ssa.Function) bool {
	for _, b := range fn.Blocks {
		for _, in := range b.Instrs {
			if c, ok := in.(*ssa.Call); ok {
				if bi, ok := c.Call.Value.(*ssa.Builtin); ok && bi.Name() == "recover" {
					return true
				}
			}
		}
	}
	return false
}

func (ex *Exec) get(fr *frame, v ssa.Value) Value {
	switch x := v.(type) {
	case *ssa.Const:
		return ex.constVal(x)
	case *ssa.Global:
		return Ptr{L: ex.globalLoc(x)}
	case *ssa.Function:
		return &Func{Fn: x}
	case *ssa.Builtin:
		return &Func{Builtin: x}
	}
	idx, ok := fr.info.index[v]
	if !ok {
		panic(fmt.Sprintf("unknown ssa value %s (%T) in %s", v.Name(), v, fr.fn))
	}
	return fr.regs[idx]
}

func (ex *Exec) set(fr *frame, v ssa.Value, val Value) {
	fr.regs[fr.info.index[v]] = val
}

func (ex *Exec) constVal(c *ssa.Const) Value {
	t := c.Type()
	if c.Value == nil {
		return ex.zero(t)
	}
	switch u := t.Underlying().(type) {
	case *types.Basic:
		switch {
		case u.Info()&types.IsBoolean != 0:
			return ex.st.Bool(constant.BoolVal(c.Value))
		case u.Info()&types.IsString != 0:
			return ex.mkStr(constant.StringVal(c.Value))
		case u.Info()&types.IsInteger != 0:
			w := typeWidth(u)
			if i, ok := constant.Int64Val(constant.ToInt(c.Value)); ok {
				return ex.st.Const(w, uint64(i))
			}
			ui, _ := constant.Uint64Val(constant.ToInt(c.Value))
			return ex.st.Const(w, ui)
		case u.Info()&types.IsFloat != 0:
			f, _ := constant.Float64Val(c.Value)
			if typeWidth(u) == 32 {
				return ex.st.Const(32, uint64(math.Float32bits(float32(f))))
			}
			return ex.st.Const(64, math.Float64bits(f))
		}
	case *types.Interface:
		// constant in interface-typed generic context
	}
	ex.unsupported("constant of type " + t.String())
	return nil
}

// ---- globals and package initialisation ----

func (ex *Exec) globalLoc(g *ssa.Global) *Loc {
	if l, ok := ex.globals[g]; ok {
		return l
	}
	ex.ensureInit(g.Pkg)
	if l, ok := ex.globals[g]; ok {
		return l
	}
	l := ex.newLoc(g.Type().(*types.Pointer).Elem())
	ex.globals[g] = l
	return l
}

var noInitPkgs = map[string]bool{
	"runtime": true, "os": true, "syscall": true, "net": true, "time": true, "reflect": true,
	"sync": true, "internal/poll": true, "internal/cpu": true, "internal/godebug": true,
	"internal/reflectlite": true, "os/signal": true, "net/http": true, "crypto/tls": true,
	"crypto/x509": true, "log": true, "flag": true, "testing": true, "internal/syscall/unix": true,
	"internal/bytealg": true, "internal/abi": true, "unsafe": true, "crypto/rand": true,
	"math/rand": true, "os/exec": true, "context": true, "mime": true, "fmt": true,
	"internal/testlog": true, "internal/oserror": true, "io/fs": true, "path/filepath": false,
	"runtime/debug": true, "runtime/pprof": true, "net/url": false, "encoding/json": true,
	"vendor/golang.org/x/net/http2/hpack": true, "compress/flate": true, "hash/crc32": false,
	"github.com/q191201771/naza/pkg/nazalog": true,
}

func (ex *Exec) ensureInit(p *ssa.Package) {
	if p == nil || ex.initState[p] != 0 {
		return
	}
	ex.initState[p] = 1
	path := p.Pkg.Path()
	if noInitPkgs[path] || strings.HasPrefix(path, "internal/") && path != "internal/itoa" || strings.HasPrefix(path, "crypto/") && path != "crypto/md5" || strings.HasPrefix(path, "vendor/") || strings.HasPrefix(path, "net/") && path != "net/url" {
		return
	}
	initFn := p.Func("init")
	if initFn == nil || initFn.Blocks == nil {
		return
	}
	// run the package initialiser; on an unsupported construct keep what was initialised so far
	savedStack := ex.stack
	func() {
		defer func() {
			if r := recover(); r != nil {
				pe, ok := r.(pathEnd)
				if !ok || pe.kind != endUnsupported {
					panic(r)
				}
				ex.stack = savedStack
				ex.Stats.Unsupported["init of "+path+": "+pe.msg] += 0
			}
		}()
		ex.runInit(initFn)
	}()
	ex.initState[p] = 2
}

// runInit executes a package init function but skips the calls to other packages' init functions
// (those run lazily when one of their globals is first touched).
func (ex *Exec) runInit(fn *ssa.Function) {
	saved := ex.initTarget
	ex.initTarget = fn
	defer func() { ex.initTarget = saved }()
	ex.callFunction(fn, nil)
}

// ---- instructions ----

func (ex *Exec) step(fr *frame, in ssa.Instruction) {
	st := ex.st
	switch i := in.(type) {
	case *ssa.DebugRef:
	case *ssa.Alloc:
		ex.set(fr, i, Ptr{L: ex.newLoc(i.Type().(*types.Pointer).Elem())})
	case *ssa.UnOp:
		ex.set(fr, i, ex.unop(fr, i))
	case *ssa.BinOp:
		x, y := ex.get(fr, i.X), ex.get(fr, i.Y)
		ex.set(fr, i, ex.binop(i.Op, i.X.Type(), i.Y.Type(), x, y))
	case *ssa.Store:
		p := ex.get(fr, i.Addr).(Ptr)
		ex.storePtr(p, ex.get(fr, i.Val))
	case *ssa.FieldAddr:
		p := ex.get(fr, i.X).(Ptr)
		l := ex.derefLoc(p)
		ex.set(fr, i, Ptr{L: l.F[i.Field]})
	case *ssa.Field:
		s := ex.get(fr, i.X).(*Struct)
		ex.set(fr, i, s.F[i.Field])
	case *ssa.IndexAddr:
		ex.set(fr, i, ex.indexAddr(fr, i))
	case *ssa.Index:
		ex.set(fr, i, ex.index(fr, i))
	case *ssa.Slice:
		ex.set(fr, i, ex.sliceOp(fr, i))
	case *ssa.Call:
		ex.set(fr, i, ex.call(fr, &i.Call))
	case *ssa.Convert:
		ex.set(fr, i, ex.convert(i.X.Type(), i.Type(), ex.get(fr, i.X)))
	case *ssa.ChangeType:
		ex.set(fr, i, ex.get(fr, i.X))
	case *ssa.ChangeInterface:
		ex.set(fr, i, ex.get(fr, i.X))
	case *ssa.MakeInterface:
		ex.set(fr, i, Iface{T: i.X.Type(), V: ex.get(fr, i.X)})
	case *ssa.TypeAssert:
		ex.set(fr, i, ex.typeAssert(fr, i))
	case *ssa.Extract:
		t := ex.get(fr, i.Tuple).(Tuple)
		ex.set(fr, i, t[i.Index])
	case *ssa.MakeSlice:
		et := i.Type().Underlying().(*types.Slice).Elem()
		ln := ex.get(fr, i.Len).(*Term)
		cp := ex.get(fr, i.Cap).(*Term)
		ex.require(st.Cmp(OSle, st.Const(ln.W, 0), ln), "makeslice: len out of range (negative)")
		if ln.W == 64 {
			ex.require(st.Cmp(OUle, ln, st.Const(ln.W, 1<<40)), "makeslice: len out of range (huge)")
		}
		n := int(ex.choose(ln, "make-len"))
		if cp != ln {
			ex.require(st.Cmp(OUle, ln, cp), "makeslice: cap out of range")
			ex.require(st.Cmp(OUle, cp, st.Const(cp.W, 1<<40)), "makeslice: cap out of range (huge)")
		}
		c := n
		if cp != ln {
			c = int(ex.choose(cp, "make-cap"))
		}
		if c > 1<<26 {
			ex.unsupported("make of more than 64Mi elements")
		}
		arr := ex.newArrayLoc(et, c)
		ex.set(fr, i, Slice{Arr: arr, Off: 0, Len: n, Cap: c})
	case *ssa.MakeMap:
		ex.set(fr, i, Map{M: &MapObj{T: i.Type().Underlying().(*types.Map)}})
	case *ssa.MakeChan:
		sz := ex.get(fr, i.Size).(*Term)
		n := int(ex.choose(sz, "chan-size"))
		ex.set(fr, i, Chan{C: &ChanObj{T: i.Type().Underlying().(*types.Chan), Cap: n}})
	case *ssa.MakeClosure:
		b := make([]Value, len(i.Bindings))
		for k, v := range i.Bindings {
			b[k] = ex.get(fr, v)
		}
		ex.set(fr, i, &Func{Fn: i.Fn.(*ssa.Function), Bind: b})
	case *ssa.MapUpdate:
		m := ex.get(fr, i.Map).(Map)
		if m.M == nil {
			ex.require(st.F, "assignment to entry in nil map")
		}
		ex.mapSet(m.M, ex.get(fr, i.Key), ex.get(fr, i.Value))
	case *ssa.Lookup:
		ex.set(fr, i, ex.lookup(fr, i))
	case *ssa.Range:
		x := ex.get(fr, i.X)
		switch v := x.(type) {
		case Str:
			ex.set(fr, i, &Iter{isStr: true, str: v})
		case Map:
			it := &Iter{}
			if v.M != nil {
				it.entries = append(it.entries, v.M.Entries...)
			}
			ex.set(fr, i, it)
		default:
			ex.unsupported(fmt.Sprintf("range over %T", x))
		}
	case *ssa.Next:
		ex.set(fr, i, ex.next(fr, i))
	case *ssa.Defer:
		d := deferred{call: &i.Call}
		if i.Call.IsInvoke() {
			d.fn = ex.get(fr, i.Call.Value)
		} else {
			d.fn = ex.get(fr, i.Call.Value)
		}
		for _, a := range i.Call.Args {
			d.args = append(d.args, ex.get(fr, a))
		}
		fr.defers = append(fr.defers, d)
	case *ssa.RunDefers:
		for len(fr.defers) > 0 {
			d := fr.defers[len(fr.defers)-1]
			fr.defers = fr.defers[:len(fr.defers)-1]
			ex.callValue(d.call, d.fn, d.args)
		}
	case *ssa.Go:
		ex.ghost = append(ex.ghost, "spawn:"+i.Call.Value.String())
		ex.goStmt(fr, i)
	case *ssa.Send:
		ch := ex.get(fr, i.Chan).(Chan)
		if ch.C == nil {
			ex.unsupported("send on nil channel")
		}
		if ch.C.Closed {
			ex.require(st.F, "send on closed channel")
		}
		if len(ch.C.Buf) >= ch.C.Cap {
			ex.unsupported("blocking channel send")
		}
		ch.C.Buf = append(ch.C.Buf, ex.get(fr, i.X))
	case *ssa.Select:
		ex.set(fr, i, ex.selectOp(fr, i))
	case *ssa.SliceToArrayPointer:
		s := ex.get(fr, i.X).(Slice)
		at := i.Type().(*types.Pointer).Elem().Underlying().(*types.Array)
		n := int(at.Len())
		if s.Len < n {
			ex.require(st.F, "slice to array pointer: length too short")
		}
		if s.Arr == nil {
			ex.set(fr, i, Ptr{})
			break
		}
		l := &Loc{T: at, E: s.Arr.E[s.Off : s.Off+n]}
		ex.set(fr, i, Ptr{L: l})
	default:
		ex.unsupported(fmt.Sprintf("instruction %T", in))
	}
}

func (ex *Exec) goStmt(fr *frame, i *ssa.Go) {
	// goroutines are not executed; harnesses can inspect ex.ghost through vrt.Spawned
}

func (ex *Exec) selectOp(fr *frame, i *ssa.Select) Value {
	// only non-blocking selects over buffered channels are modelled
	if !i.Blocking {
		for k, s := range i.States {
			ch := ex.get(fr, s.Chan).(Chan)
			if ch.C == nil {
				continue
			}
			if s.Dir == types.SendOnly {
				if len(ch.C.Buf) < ch.C.Cap && !ch.C.Closed {
					ch.C.Buf = append(ch.C.Buf, ex.get(fr, s.Send))
					return ex.selectResult(i, k, false, nil)
				}
			} else {
				if len(ch.C.Buf) > 0 {
					v := ch.C.Buf[0]
					ch.C.Buf = ch.C.Buf[1:]
					return ex.selectResult(i, k, true, v)
				}
				if ch.C.Closed {
					return ex.selectResult(i, k, false, nil)
				}
			}
		}
		return ex.selectResult(i, -1, false, nil)
	}
	ex.unsupported("blocking select")
	return nil
}

func (ex *Exec) selectResult(i *ssa.Select, idx int, recvOk bool, recv Value) Value {
	tt := i.Type().(*types.Tuple)
	t := make(Tuple, tt.Len())
	t[0] = ex.st.Const(64, uint64(int64(idx)))
	t[1] = ex.st.Bool(recvOk)
	r := 2
	for k, s := range i.States {
		if s.Dir == types.RecvOnly {
			if k == idx && recv != nil {
				t[r] = recv
			} else {
				t[r] = ex.zero(tt.At(r).Type())
			}
			r++
		}
	}
	return t
}

// derefLoc resolves a pointer for access, emitting the nil-dereference obligation.
func (ex *Exec) derefLoc(p Ptr) *Loc {
	if p.Arr != nil {
		return ex.resolvePtr(p)
	}
	if p.L == nil {
		if p.Ext != "" {
			ex.unsupported("access to external object " + p.Ext)
		}
		ex.require(ex.st.F, "nil pointer dereference")
	}
	return p.L
}

func (ex *Exec) resolvePtr(p Ptr) *Loc {
	if p.Arr == nil {
		return p.L
	}
	i := int(ex.choose(p.Idx, "element-pointer"))
	return p.Arr.E[i]
}

func (ex *Exec) loadPtr(p Ptr) Value {
	if p.Arr != nil {
		// symbolic element read: ite chain when elements are terms
		n := len(p.Arr.E)
		if n > 0 && n <= 4096 {
			if _, ok := p.Arr.E[0].V.(*Term); ok && p.Arr.E[0].F == nil && p.Arr.E[0].E == nil {
				return ex.selectElem(p.Arr.E, 0, n, p.Idx)
			}
		}
		return ex.load(ex.resolvePtr(p))
	}
	return ex.load(ex.derefLoc(p))
}

// selectElem builds ite(idx==lo, e[lo], ite(...)) over [lo,hi).
func (ex *Exec) selectElem(e []*Loc, lo, hi int, idx *Term) *Term {
	st := ex.st
	// all equal?
	first := e[lo].V.(*Term)
	same := true
	for k := lo + 1; k < hi; k++ {
		if e[k].V != first {
			same = false
			break
		}
	}
	if same {
		return first
	}
	r := e[hi-1].V.(*Term)
	for k := hi - 2; k >= lo; k-- {
		r = st.Ite(st.Eq(idx, st.Const(idx.W, uint64(k))), e[k].V.(*Term), r)
	}
	return r
}

func (ex *Exec) storePtr(p Ptr, v Value) {
	if p.Arr != nil {
		n := len(p.Arr.E)
		if tv, ok := v.(*Term); ok && n <= 4096 {
			st := ex.st
			for k := 0; k < n; k++ {
				old, ok := p.Arr.E[k].V.(*Term)
				if !ok {
					ex.store(ex.resolvePtr(p), v)
					return
				}
				ex.setLeaf(p.Arr.E[k], st.Ite(st.Eq(p.Idx, st.Const(p.Idx.W, uint64(k))), tv, old))
			}
			return
		}
		ex.store(ex.resolvePtr(p), v)
		return
	}
	ex.store(ex.derefLoc(p), v)
}

func (ex *Exec) unop(fr *frame, i *ssa.UnOp) Value {
	x := ex.get(fr, i.X)
	st := ex.st
	switch i.Op {
	case token.MUL:
		return ex.loadPtr(x.(Ptr))
	case token.NOT:
		return st.Not(x.(*Term))
	case token.SUB:
		t := x.(*Term)
		if isFloat(i.X.Type()) {
			return ex.fpUn("neg", t)
		}
		return st.Neg(t)
	case token.XOR:
		return st.BNot(x.(*Term))
	case token.ARROW:
		ch := x.(Chan)
		if ch.C != nil && len(ch.C.Buf) > 0 {
			v := ch.C.Buf[0]
			ch.C.Buf = ch.C.Buf[1:]
			if i.CommaOk {
				return Tuple{v, st.T}
			}
			return v
		}
		if ch.C != nil && ch.C.Closed {
			z := ex.zero(ch.C.T.Elem())
			if i.CommaOk {
				return Tuple{z, st.F}
			}
			return z
		}
		ex.unsupported("blocking channel receive")
	}
	ex.unsupported("unop " + i.Op.String())
	return nil
}

func (ex *Exec) fpUn(op string, a *Term) *Term {
	if a.Op == OConst && a.W == 64 {
		f := math.Float64frombits(a.Val)
		switch op {
		case "neg":
			return ex.st.Const(64, math.Float64bits(-f))
		}
	}
	if a.W != 64 {
		ex.unsupported("float32 arithmetic")
	}
	return ex.st.App("fp:"+op+"64", 64, a)
}

func (ex *Exec) fpBin(op token.Token, a, b *Term) Value {
	st := ex.st
	if a.W != 64 {
		if a.Op == OConst && b.Op == OConst {
			x, y := math.Float32frombits(uint32(a.Val)), math.Float32frombits(uint32(b.Val))
			var r float32
			switch op {
			case token.ADD:
				r = x + y
			case token.SUB:
				r = x - y
			case token.MUL:
				r = x * y
			case token.QUO:
				r = x / y
			case token.EQL:
				return st.Bool(x == y)
			case token.NEQ:
				return st.Bool(x != y)
			case token.LSS:
				return st.Bool(x < y)
			case token.LEQ:
				return st.Bool(x <= y)
			case token.GTR:
				return st.Bool(x > y)
			case token.GEQ:
				return st.Bool(x >= y)
			}
			return st.Const(32, uint64(math.Float32bits(r)))
		}
		ex.unsupported("symbolic float32 arithmetic")
	}
	if a.Op == OConst && b.Op == OConst {
		x, y := math.Float64frombits(a.Val), math.Float64frombits(b.Val)
		switch op {
		case token.ADD:
			return st.Const(64, math.Float64bits(x+y))
		case token.SUB:
			return st.Const(64, math.Float64bits(x-y))
		case token.MUL:
			return st.Const(64, math.Float64bits(x*y))
		case token.QUO:
			return st.Const(64, math.Float64bits(x/y))
		case token.EQL:
			return st.Bool(x == y)
		case token.NEQ:
			return st.Bool(x != y)
		case token.LSS:
			return st.Bool(x < y)
		case token.LEQ:
			return st.Bool(x <= y)
		case token.GTR:
			return st.Bool(x > y)
		case token.GEQ:
			return st.Bool(x >= y)
		}
	}
	switch op {
	case token.ADD:
		return st.App("fp:add64", 64, a, b)
	case token.SUB:
		return st.App("fp:sub64", 64, a, b)
	case token.MUL:
		return st.App("fp:mul64", 64, a, b)
	case token.QUO:
		return st.App("fp:div64", 64, a, b)
	case token.EQL:
		return st.App("fp:eq64", 0, a, b)
	case token.NEQ:
		return st.Not(st.App("fp:eq64", 0, a, b))
	case token.LSS:
		return st.App("fp:lt64", 0, a, b)
	case token.LEQ:
		return st.App("fp:le64", 0, a, b)
	case token.GTR:
		return st.App("fp:lt64", 0, b, a)
	case token.GEQ:
		return st.App("fp:le64", 0, b, a)
	}
	ex.unsupported("float op " + op.String())
	return nil
}

func (ex *Exec) binop(op token.Token, xt, yt types.Type, x, y Value) Value {
	st := ex.st
	switch a := x.(type) {
	case *Term:
		b, ok := y.(*Term)
		if !ok {
			break
		}
		if a.W == 0 { // bool
			switch op {
			case token.EQL:
				return st.Eq(a, b)
			case token.NEQ:
				return st.Not(st.Eq(a, b))
			case token.AND, token.LAND:
				return st.And(a, b)
			case token.OR, token.LOR:
				return st.Or(a, b)
			}
			ex.unsupported("bool binop " + op.String())
		}
		if isFloat(xt) {
			return ex.fpBin(op, a, b)
		}
		signed := isSigned(xt)
		switch op {
		case token.ADD:
			return st.Bin(OAdd, a, b)
		case token.SUB:
			return st.Bin(OSub, a, b)
		case token.MUL:
			return st.Bin(OMul, a, b)
		case token.QUO:
			ex.require(st.Not(st.Eq(b, st.Const(b.W, 0))), "integer divide by zero")
			if signed {
				return st.Bin(OSDiv, a, b)
			}
			return st.Bin(OUDiv, a, b)
		case token.REM:
			ex.require(st.Not(st.Eq(b, st.Const(b.W, 0))), "integer divide by zero")
			if signed {
				return st.Bin(OSRem, a, b)
			}
			return st.Bin(OURem, a, b)
		case token.AND:
			return st.Bin(OBAnd, a, b)
		case token.OR:
			return st.Bin(OBOr, a, b)
		case token.XOR:
			return st.Bin(OBXor, a, b)
		case token.AND_NOT:
			return st.Bin(OBAnd, a, st.BNot(b))
		case token.SHL, token.SHR:
			if isSigned(yt) {
				ex.require(st.Cmp(OSle, st.Const(b.W, 0), b), "negative shift amount")
			}
			cnt := ex.shiftCount(b, a.W)
			if op == token.SHL {
				return st.Bin(OShl, a, cnt)
			}
			if signed {
				return st.Bin(OAShr, a, cnt)
			}
			return st.Bin(OLShr, a, cnt)
		case token.EQL:
			return st.Eq(a, b)
		case token.NEQ:
			return st.Not(st.Eq(a, b))
		case token.LSS:
			if signed {
				return st.Cmp(OSlt, a, b)
			}
			return st.Cmp(OUlt, a, b)
		case token.LEQ:
			if signed {
				return st.Cmp(OSle, a, b)
			}
			return st.Cmp(OUle, a, b)
		case token.GTR:
			if signed {
				return st.Cmp(OSlt, b, a)
			}
			return st.Cmp(OUlt, b, a)
		case token.GEQ:
			if signed {
				return st.Cmp(OSle, b, a)
			}
			return st.Cmp(OUle, b, a)
		}
	case Str:
		b := y.(Str)
		switch op {
		case token.ADD:
			nb := make([]*Term, 0, len(a.B)+len(b.B))
			nb = append(append(nb, a.B...), b.B...)
			return Str{B: nb}
		case token.EQL:
			return ex.valueEq(a, b)
		case token.NEQ:
			return st.Not(ex.valueEq(a, b))
		case token.LSS:
			return ex.strLess(a, b, false)
		case token.LEQ:
			return ex.strLess(a, b, true)
		case token.GTR:
			return ex.strLess(b, a, false)
		case token.GEQ:
			return ex.strLess(b, a, true)
		}
	}
	switch op {
	case token.EQL:
		return ex.valueEq(x, y)
	case token.NEQ:
		return st.Not(ex.valueEq(x, y))
	}
	ex.unsupported(fmt.Sprintf("binop %s on %T,%T", op, x, y))
	return nil
}

// shiftCount converts a shift count to width w with Go's saturating semantics.
func (ex *Exec) shiftCount(b *Term, w int) *Term {
	st := ex.st
	if b.W == w {
		return b
	}
	if b.W < w {
		return st.ZExt(b, w)
	}
	// wider count: saturate at w
	big := st.Cmp(OUle, st.Const(b.W, uint64(w)), b)
	return st.Ite(big, st.Const(w, uint64(w)), st.Trunc(b, w))
}

func (ex *Exec) strLess(a, b Str, orEq bool) *Term {
	st := ex.st
	// lexicographic: build from the end
	n := len(a.B)
	if len(b.B) < n {
		n = len(b.B)
	}
	var r *Term
	if orEq {
		r = st.Bool(len(a.B) <= len(b.B))
	} else {
		r = st.Bool(len(a.B) < len(b.B))
	}
	for i := n - 1; i >= 0; i-- {
		r = st.Ite(st.Eq(a.B[i], b.B[i]), r, st.Cmp(OUlt, a.B[i], b.B[i]))
	}
	return r
}

func (ex *Exec) convert(from, to types.Type, v Value) Value {
	st := ex.st
	fu, tu := from.Underlying(), to.Underlying()
	switch t := v.(type) {
	case *Term:
		if isString(tu) && isInteger(fu) {
			// string(rune)
			if t.Op == OConst {
				return ex.mkStr(string(rune(int32(toSigned(t.Val, t.W)))))
			}
			return ex.encodeRuneSym(t)
		}
		ff, tf := isFloat(fu), isFloat(tu)
		switch {
		case !ff && !tf:
			tw := typeWidth(tu)
			if tw < 0 {
				if b, ok := tu.(*types.Basic); ok && b.Kind() == types.UnsafePointer {
					ex.unsupported("uintptr to unsafe.Pointer")
				}
				ex.unsupported("convert int to " + to.String())
			}
			if tw <= t.W {
				return st.Trunc(t, tw)
			}
			if isSigned(fu) {
				return st.SExt(t, tw)
			}
			return st.ZExt(t, tw)
		case !ff && tf:
			if typeWidth(tu) == 32 {
				if t.Op == OConst {
					if isSigned(fu) {
						return st.Const(32, uint64(math.Float32bits(float32(toSigned(t.Val, t.W)))))
					}
					return st.Const(32, uint64(math.Float32bits(float32(t.Val))))
				}
				ex.unsupported("symbolic int to float32")
			}
			if t.Op == OConst {
				if isSigned(fu) {
					return st.Const(64, math.Float64bits(float64(toSigned(t.Val, t.W))))
				}
				return st.Const(64, math.Float64bits(float64(t.Val)))
			}
			if isSigned(fu) {
				return st.App("fp:s2f64", 64, st.SExt(t, 64))
			}
			return st.App("fp:u2f64", 64, st.ZExt(t, 64))
		case ff && !tf:
			tw := typeWidth(tu)
			if t.Op == OConst {
				var f float64
				if t.W == 32 {
					f = float64(math.Float32frombits(uint32(t.Val)))
				} else {
					f = math.Float64frombits(t.Val)
				}
				if isSigned(tu) {
					return st.Const(tw, uint64(int64(f)))
				}
				if f < 0 {
					return st.Const(tw, uint64(int64(f)))
				}
				return st.Const(tw, uint64(f))
			}
			if t.W != 64 {
				ex.unsupported("symbolic float32 to int")
			}
			sg := "u"
			if isSigned(tu) {
				sg = "s"
			}
			return st.App(fmt.Sprintf("fp:f2%s%d", sg, tw), tw, t)
		default:
			fw, tw := typeWidth(fu), typeWidth(tu)
			if fw == tw {
				return t
			}
			if t.Op == OConst {
				if fw == 64 {
					return st.Const(32, uint64(math.Float32bits(float32(math.Float64frombits(t.Val)))))
				}
				return st.Const(64, math.Float64bits(float64(math.Float32frombits(uint32(t.Val)))))
			}
			if fw == 64 {
				return st.App("fp:64to32", 32, t)
			}
			return st.App("fp:32to64", 64, t)
		}
	case Str:
		if sl, ok := tu.(*types.Slice); ok {
			if typeWidth(sl.Elem()) == 8 {
				return ex.mkByteSlice(append([]*Term{}, t.B...))
			}
			// []rune
			cs, ok := t.Concrete()
			if !ok {
				ex.unsupported("symbolic string to []rune")
			}
			rs := []rune(cs)
			arr := ex.newArrayLoc(sl.Elem(), len(rs))
			for k, r := range rs {
				arr.E[k].V = st.Const(32, uint64(r))
			}
			return Slice{Arr: arr, Len: len(rs), Cap: len(rs)}
		}
		return t
	case Slice:
		if isString(tu) {
			et := fu.(*types.Slice).Elem()
			if typeWidth(et) == 8 {
				return Str{B: ex.bytesOf(t)}
			}
			var sb strings.Builder
			for k := 0; k < t.Len; k++ {
				r := t.Arr.E[t.Off+k].V.(*Term)
				sb.WriteRune(rune(int32(ex.choose(r, "rune-to-string"))))
			}
			return ex.mkStr(sb.String())
		}
		return t
	case Ptr:
		return t
	}
	return v
}

func (ex *Exec) typeAssert(fr *frame, i *ssa.TypeAssert) Value {
	x := ex.get(fr, i.X).(Iface)
	ok := false
	var res Value
	if x.T != nil {
		if types.IsInterface(i.AssertedType) {
			ok = types.Implements(x.T, i.AssertedType.Underlying().(*types.Interface))
			res = x
		} else {
			ok = types.Identical(x.T, i.AssertedType)
			res = x.V
		}
	}
	if i.CommaOk {
		if !ok {
			res = ex.zero(i.AssertedType)
		}
		return Tuple{res, ex.st.Bool(ok)}
	}
	if !ok {
		ex.require(ex.st.F, "interface conversion (failed type assertion)")
	}
	return res
}

// indexAddr computes &x[i] for slices and pointers to arrays.
func (ex *Exec) indexAddr(fr *frame, i *ssa.IndexAddr) Value {
	st := ex.st
	idx := ex.get(fr, i.Index).(*Term)
	idx = ex.toInt64(idx, i.Index.Type())
	var elems []*Loc
	var arr *Loc
	off, n := 0, 0
	switch x := ex.get(fr, i.X).(type) {
	case Slice:
		arr, off, n = x.Arr, x.Off, x.Len
	case Ptr:
		l := ex.derefLoc(x)
		arr, off, n = l, 0, len(l.E)
	default:
		ex.unsupported(fmt.Sprintf("IndexAddr on %T", x))
	}
	ex.require(st.Cmp(OUlt, idx, st.Const(64, uint64(n))), "index out of range")
	if arr != nil {
		elems = arr.E
	}
	if idx.Op == OConst {
		return Ptr{L: elems[off+int(idx.Val)]}
	}
	// symbolic element pointer relative to the whole backing array
	if off == 0 && n == len(elems) {
		return Ptr{Arr: arr, Idx: idx}
	}
	view := &Loc{T: arr.T, E: elems[off : off+n]}
	return Ptr{Arr: view, Idx: idx}
}

// toInt64 widens an index value to 64 bits according to its static type.
func (ex *Exec) toInt64(t *Term, ty types.Type) *Term {
	if t.W == 64 {
		return t
	}
	if isSigned(ty) {
		return ex.st.SExt(t, 64)
	}
	return ex.st.ZExt(t, 64)
}

func (ex *Exec) index(fr *frame, i *ssa.Index) Value {
	st := ex.st
	idx := ex.toInt64(ex.get(fr, i.Index).(*Term), i.Index.Type())
	switch x := ex.get(fr, i.X).(type) {
	case *Array:
		n := len(x.E)
		ex.require(st.Cmp(OUlt, idx, st.Const(64, uint64(n))), "index out of range")
		if idx.Op == OConst {
			return x.E[idx.Val]
		}
		if _, ok := x.E[0].(*Term); ok && n <= 4096 {
			r := x.E[n-1].(*Term)
			for k := n - 2; k >= 0; k-- {
				r = st.Ite(st.Eq(idx, st.Const(64, uint64(k))), x.E[k].(*Term), r)
			}
			return r
		}
		return x.E[ex.choose(idx, "array-index")]
	case Str:
		n := len(x.B)
		ex.require(st.Cmp(OUlt, idx, st.Const(64, uint64(n))), "index out of range")
		if idx.Op == OConst {
			return x.B[idx.Val]
		}
		r := x.B[n-1]
		for k := n - 2; k >= 0; k-- {
			r = st.Ite(st.Eq(idx, st.Const(64, uint64(k))), x.B[k], r)
		}
		return r
	}
	ex.unsupported("Index on unexpected value")
	return nil
}

func (ex *Exec) sliceOp(fr *frame, i *ssa.Slice) Value {
	st := ex.st
	x := ex.get(fr, i.X)
	var arr *Loc
	off, ln, cp := 0, 0, 0
	isStr := false
	var sv Str
	switch v := x.(type) {
	case Slice:
		arr, off, ln, cp = v.Arr, v.Off, v.Len, v.Cap
	case Str:
		isStr = true
		sv = v
		ln, cp = len(v.B), len(v.B)
	case Ptr:
		l := ex.derefLoc(v)
		arr, off, ln, cp = l, 0, len(l.E), len(l.E)
	default:
		ex.unsupported(fmt.Sprintf("Slice on %T", x))
	}
	c64 := func(n int) *Term { return st.Const(64, uint64(n)) }
	lo, hi, mx := c64(0), c64(ln), c64(cp)
	if i.Low != nil {
		lo = ex.toInt64(ex.get(fr, i.Low).(*Term), i.Low.Type())
	}
	if i.High != nil {
		hi = ex.toInt64(ex.get(fr, i.High).(*Term), i.High.Type())
	}
	if i.Max != nil {
		mx = ex.toInt64(ex.get(fr, i.Max).(*Term), i.Max.Type())
		ex.require(st.Cmp(OUle, mx, c64(cp)), "slice bounds out of range (max)")
		ex.require(st.Cmp(OUle, hi, mx), "slice bounds out of range (high > max)")
	} else {
		ex.require(st.Cmp(OUle, hi, c64(cp)), "slice bounds out of range (high)")
	}
	ex.require(st.Cmp(OUle, lo, hi), "slice bounds out of range (low > high)")
	l := int(ex.choose(lo, "slice-low"))
	h := int(ex.choose(hi, "slice-high"))
	m := cp
	if i.Max != nil {
		m = int(ex.choose(mx, "slice-max"))
	}
	if isStr {
		return Str{B: sv.B[l:h]}
	}
	if arr == nil {
		return Slice{}
	}
	return Slice{Arr: arr, Off: off + l, Len: h - l, Cap: m - l}
}

// ---- maps ----

func (ex *Exec) mapFind(m *MapObj, k Value) *mapEntry {
	if m == nil {
		return nil
	}
	for _, e := range m.Entries {
		c := ex.valueEq(e.K, k)
		if ex.decide(c) {
			return e
		}
	}
	return nil
}

func (ex *Exec) mapSet(m *MapObj, k, v Value) {
	if e := ex.mapFind(m, k); e != nil {
		e.V = v
		return
	}
	m.Entries = append(m.Entries, &mapEntry{K: k, V: v})
}

func (ex *Exec) mapDelete(m *MapObj, k Value) {
	if m == nil {
		return
	}
	for i, e := range m.Entries {
		if ex.decide(ex.valueEq(e.K, k)) {
			m.Entries = append(append([]*mapEntry{}, m.Entries[:i]...), m.Entries[i+1:]...)
			return
		}
	}
}

func (ex *Exec) lookup(fr *frame, i *ssa.Lookup) Value {
	x := ex.get(fr, i.X)
	switch v := x.(type) {
	case Map:
		e := ex.mapFind(v.M, ex.get(fr, i.Index))
		var r Value
		if e != nil {
			r = e.V
		} else {
			r = ex.zero(i.X.Type().Underlying().(*types.Map).Elem())
		}
		if i.CommaOk {
			return Tuple{r, ex.st.Bool(e != nil)}
		}
		return r
	case Str:
		idx := ex.toInt64(ex.get(fr, i.Index).(*Term), i.Index.Type())
		n := len(v.B)
		ex.require(ex.st.Cmp(OUlt, idx, ex.st.Const(64, uint64(n))), "index out of range")
		if idx.Op == OConst {
			return v.B[idx.Val]
		}
		r := v.B[n-1]
		for k := n - 2; k >= 0; k-- {
			r = ex.st.Ite(ex.st.Eq(idx, ex.st.Const(64, uint64(k))), v.B[k], r)
		}
		return r
	}
	ex.unsupported("Lookup on unexpected value")
	return nil
}

func (ex *Exec) next(fr *frame, i *ssa.Next) Value {
	it := ex.get(fr, i.Iter).(*Iter)
	st := ex.st
	if i.IsString {
		if it.pos >= len(it.str.B) {
			return Tuple{st.F, st.Const(64, 0), st.Const(32, 0)}
		}
		b := it.str.B[it.pos]
		p := it.pos
		if b.Op == OConst && b.Val >= 0x80 {
			// concrete multi-byte sequence
			var raw []byte
			for k := it.pos; k < len(it.str.B) && k < it.pos+4; k++ {
				if it.str.B[k].Op != OConst {
					break
				}
				raw = append(raw, byte(it.str.B[k].Val))
			}
			r, sz := decodeRune(raw)
			it.pos += sz
			return Tuple{st.T, st.Const(64, uint64(p)), st.Const(32, uint64(r))}
		}
		if b.Op != OConst {
			if !ex.decide(st.Cmp(OUlt, b, st.Const(8, 0x80))) {
				r, sz := ex.decodeRuneSym(it.str.B[it.pos:])
				it.pos += sz
				return Tuple{st.T, st.Const(64, uint64(p)), r}
			}
		}
		it.pos++
		return Tuple{st.T, st.Const(64, uint64(p)), st.ZExt(b, 32)}
	}
	tt := i.Type().(*types.Tuple)
	if it.pos >= len(it.entries) {
		return Tuple{st.F, ex.zeroOrNil(tt.At(1).Type()), ex.zeroOrNil(tt.At(2).Type())}
	}
	e := it.entries[it.pos]
	it.pos++
	return Tuple{st.T, e.K, e.V}
}

func (ex *Exec) zeroOrNil(t types.Type) Value {
	if b, ok := t.(*types.Basic); ok && b.Kind() == types.Invalid {
		return nil
	}
	return ex.zero(t)
}

func decodeRune(b []byte) (rune, int) {
	s := string(b)
	for _, r := range s {
		n := len(string(r))
		if r == 0xFFFD {
			n = 1
		}
		return r, n
	}
	return 0xFFFD, 1
}

// ---- calls ----

func (ex *Exec) call(fr *frame, c *ssa.CallCommon) Value {
	args := make([]Value, 0, len(c.Args)+1)
	if c.IsInvoke() {
		recv := ex.get(fr, c.Value).(Iface)
		for _, a := range c.Args {
			args = append(args, ex.get(fr, a))
		}
		return ex.invoke(recv, c.Method, args)
	}
	fv := ex.get(fr, c.Value)
	for _, a := range c.Args {
		args = append(args, ex.get(fr, a))
	}
	return ex.callValue(c, fv, args)
}

func (ex *Exec) invoke(recv Iface, m *types.Func, args []Value) Value {
	if in := ex.invokeIntrinsic(recv, m, args); in != nil {
		return in()
	}
	if recv.T == nil {
		ex.require(ex.st.F, "nil pointer dereference (method call on nil interface)")
	}
	if nf, ok := recv.V.(*nativeObj); ok {
		return nf.call(ex, m.Name(), args)
	}
	fn := ex.prog.LookupMethod(recv.T, m.Pkg(), m.Name())
	if fn == nil {
		ex.unsupported("method not found: " + recv.T.String() + "." + m.Name())
	}
	return ex.callFunction(fn, append([]Value{recv.V}, args...))
}

func (ex *Exec) callValue(c *ssa.CallCommon, fv Value, args []Value) Value {
	if c != nil && c.IsInvoke() {
		return ex.invoke(fv.(Iface), c.Method, args)
	}
	f, _ := fv.(*Func)
	if f == nil {
		ex.require(ex.st.F, "nil pointer dereference (call of nil func)")
	}
	if f.Native != nil {
		return f.Native(ex, args)
	}
	if f.Builtin != nil {
		return ex.builtin(f.Builtin, c, args)
	}
	return ex.callClosure(f.Fn, args, f.Bind)
}

func (ex *Exec) builtin(b *ssa.Builtin, c *ssa.CallCommon, args []Value) Value {
	st := ex.st
	switch b.Name() {
	case "len":
		switch v := args[0].(type) {
		case Slice:
			return st.Const(64, uint64(v.Len))
		case Str:
			return st.Const(64, uint64(len(v.B)))
		case Map:
			if v.M == nil {
				return st.Const(64, 0)
			}
			return st.Const(64, uint64(len(v.M.Entries)))
		case Chan:
			if v.C == nil {
				return st.Const(64, 0)
			}
			return st.Const(64, uint64(len(v.C.Buf)))
		case *Array:
			return st.Const(64, uint64(len(v.E)))
		case Ptr:
			if v.L != nil {
				return st.Const(64, uint64(len(v.L.E)))
			}
			if at, ok := c.Args[0].Type().Underlying().(*types.Pointer); ok {
				return st.Const(64, uint64(at.Elem().Underlying().(*types.Array).Len()))
			}
		}
	case "cap":
		switch v := args[0].(type) {
		case Slice:
			return st.Const(64, uint64(v.Cap))
		case Chan:
			if v.C == nil {
				return st.Const(64, 0)
			}
			return st.Const(64, uint64(v.C.Cap))
		case *Array:
			return st.Const(64, uint64(len(v.E)))
		case Ptr:
			if v.L != nil {
				return st.Const(64, uint64(len(v.L.E)))
			}
		}
	case "append":
		s := args[0].(Slice)
		var add []Value
		var et types.Type
		if c != nil {
			et = c.Args[0].Type().Underlying().(*types.Slice).Elem()
		}
		switch t := args[1].(type) {
		case Slice:
			for k := 0; k < t.Len; k++ {
				add = append(add, ex.load(t.Arr.E[t.Off+k]))
			}
		case Str:
			for _, bt := range t.B {
				add = append(add, bt)
			}
		}
		if len(add) == 0 {
			return s
		}
		return ex.appendVals(s, add, et)
	case "copy":
		d := args[0].(Slice)
		n := d.Len
		switch t := args[1].(type) {
		case Slice:
			if t.Len < n {
				n = t.Len
			}
			// handle overlap: read all first
			tmp := make([]Value, n)
			for k := 0; k < n; k++ {
				tmp[k] = ex.load(t.Arr.E[t.Off+k])
			}
			for k := 0; k < n; k++ {
				ex.store(d.Arr.E[d.Off+k], tmp[k])
			}
		case Str:
			if len(t.B) < n {
				n = len(t.B)
			}
			for k := 0; k < n; k++ {
				d.Arr.E[d.Off+k].V = t.B[k]
			}
		}
		return st.Const(64, uint64(n))
	case "delete":
		m := args[0].(Map)
		ex.mapDelete(m.M, args[1])
		return nil
	case "panic":
		ex.explicitPanic(args[0])
	case "recover":
		if ex.panicking != nil {
			v := ex.panicking.val
			ex.panicking = nil
			if iv, ok := v.(Iface); ok && iv.T != nil {
				return iv
			}
			return Iface{T: types.Typ[types.String], V: ex.mkStr("panic")}
		}
		return Iface{}
	case "print", "println":
		return nil
	case "close":
		ch := args[0].(Chan)
		if ch.C == nil {
			ex.require(st.F, "close of nil channel")
		}
		if ch.C.Closed {
			ex.require(st.F, "close of closed channel")
		}
		ch.C.Closed = true
		return nil
	case "ssa:wrapnilchk":
		if p, ok := args[0].(Ptr); ok && p.IsNil() {
			ex.require(st.F, "nil pointer dereference (value method via nil pointer)")
		}
		return args[0]
	case "min", "max":
		r := args[0].(*Term)
		signed := c != nil && isSigned(c.Args[0].Type())
		for _, a := range args[1:] {
			t := a.(*Term)
			var lt *Term
			if signed {
				lt = st.Cmp(OSlt, t, r)
			} else {
				lt = st.Cmp(OUlt, t, r)
			}
			if b.Name() == "max" {
				r = st.Ite(lt, r, t)
			} else {
				r = st.Ite(lt, t, r)
			}
		}
		return r
	case "clear":
		switch v := args[0].(type) {
		case Map:
			if v.M != nil {
				v.M.Entries = nil
			}
		case Slice:
			for k := 0; k < v.Len; k++ {
				l := v.Arr.E[v.Off+k]
				ex.store(l, ex.zero(l.T))
			}
		}
		return nil
	case "String": // unsafe.String(ptr, len)
		p := args[0].(Ptr)
		n := int(ex.choose(args[1].(*Term), "unsafe.String len"))
		if n == 0 {
			return Str{}
		}
		arr, off := ex.findArrayOf(p)
		if arr == nil {
			ex.unsupported("unsafe.String on unknown pointer")
		}
		out := make([]*Term, n)
		for k := 0; k < n; k++ {
			out[k] = arr.E[off+k].V.(*Term)
		}
		return Str{B: out}
	case "SliceData", "StringData":
		switch v := args[0].(type) {
		case Slice:
			if v.Arr == nil {
				return Ptr{}
			}
			if v.Off < len(v.Arr.E) {
				ex.ptrOrigin(v.Arr.E[v.Off], v.Arr, v.Off)
				return Ptr{L: v.Arr.E[v.Off]}
			}
			return Ptr{L: &Loc{T: types.Typ[types.Uint8], V: st.Const(8, 0)}}
		}
	case "Slice": // unsafe.Slice(ptr, len)
		p := args[0].(Ptr)
		n := int(ex.choose(args[1].(*Term), "unsafe.Slice len"))
		arr, off := ex.findArrayOf(p)
		if arr == nil {
			if n == 0 {
				return Slice{}
			}
			ex.unsupported("unsafe.Slice on unknown pointer")
		}
		return Slice{Arr: arr, Off: off, Len: n, Cap: len(arr.E) - off}
	}
	ex.unsupported("builtin " + b.Name())
	return nil
}

func (ex *Exec) ptrOrigin(l *Loc, arr *Loc, off int) {
	if ex.extState["ptrOrigin"] == nil {
		ex.extState["ptrOrigin"] = map[*Loc]Slice{}
	}
	ex.extState["ptrOrigin"].(map[*Loc]Slice)[l] = Slice{Arr: arr, Off: off}
}

func (ex *Exec) findArrayOf(p Ptr) (*Loc, int) {
	if p.L == nil {
		return nil, 0
	}
	if m, ok := ex.extState["ptrOrigin"].(map[*Loc]Slice); ok {
		if s, ok := m[p.L]; ok {
			return s.Arr, s.Off
		}
	}
	return nil, 0
}

// appendVals implements append with Go's growth made deterministic (cap doubles).
func (ex *Exec) appendVals(s Slice, add []Value, et types.Type) Slice {
	need := s.Len + len(add)
	if s.Arr != nil && need <= s.Cap {
		for k, v := range add {
			ex.store(s.Arr.E[s.Off+s.Len+k], v)
		}
		return Slice{Arr: s.Arr, Off: s.Off, Len: need, Cap: s.Cap}
	}
	if et == nil && s.Arr != nil {
		et = s.Arr.T.(*types.Array).Elem()
	}
	nc := s.Cap * 2
	if nc < need {
		nc = need
	}
	if nc < 8 && need <= 8 {
		nc = 8
	}
	arr := ex.newArrayLoc(et, nc)
	for k := 0; k < s.Len; k++ {
		ex.store(arr.E[k], ex.load(s.Arr.E[s.Off+k]))
	}
	for k, v := range add {
		ex.store(arr.E[s.Len+k], v)
	}
	return Slice{Arr: arr, Off: 0, Len: need, Cap: nc}
}

// SortedKeys is a helper for deterministic evidence output.
func SortedKeys(m map[string]int) []string {
	k := make([]string, 0, len(m))
	for s := range m {
		k = append(k, s)
	}
	sort.Strings(k)
	return k
}

// ---- diamond merging: if/else (or if/then) arms made of simple instructions become ite terms ----

type specAbort struct{}

type mergeInfo struct {
	ok         bool
	armT, armF *ssa.BasicBlock // nil when that side goes straight to the join
	join       *ssa.BasicBlock
}

func (ex *Exec) setLeaf(l *Loc, v Value) {
	if ex.journal != nil {
		if _, ok := ex.journal[l]; !ok {
			ex.journal[l] = l.V
		}
	}
	l.V = v
}

func simpleArm(b *ssa.BasicBlock) (*ssa.BasicBlock, bool) {
	if len(b.Preds) != 1 || len(b.Instrs) == 0 || len(b.Instrs) > 24 {
		return nil, false
	}
	j, ok := b.Instrs[len(b.Instrs)-1].(*ssa.Jump)
	if !ok {
		return nil, false
	}
	_ = j
	for _, in := range b.Instrs[:len(b.Instrs)-1] {
		switch x := in.(type) {
		case *ssa.BinOp, *ssa.Convert, *ssa.ChangeType, *ssa.IndexAddr, *ssa.FieldAddr, *ssa.Field,
			*ssa.Store, *ssa.Extract, *ssa.DebugRef, *ssa.Index:
		case *ssa.UnOp:
			if x.Op == token.ARROW {
				return nil, false
			}
		default:
			return nil, false
		}
	}
	return b.Succs[0], true
}

func (ex *Exec) mergeInfoFor(b *ssa.BasicBlock) *mergeInfo {
	if ex.minfo == nil {
		ex.minfo = map[*ssa.BasicBlock]*mergeInfo{}
	}
	if mi, ok := ex.minfo[b]; ok {
		return mi
	}
	mi := &mergeInfo{}
	ex.minfo[b] = mi
	t, f := b.Succs[0], b.Succs[1]
	jt, okT := simpleArm(t)
	jf, okF := simpleArm(f)
	switch {
	case okT && okF && jt == jf && jt != b:
		mi.ok, mi.armT, mi.armF, mi.join = true, t, f, jt
	case okT && jt == f && f != b:
		mi.ok, mi.armT, mi.join = true, t, f
	case okF && jf == t && t != b:
		mi.ok, mi.armF, mi.join = true, f, t
	}
	if mi.ok {
		// the join's phis must only depend on these predecessors in a way we can resolve
		for _, p := range mi.join.Preds {
			if p != b && p != mi.armT && p != mi.armF {
				// other predecessors are fine: phi edges are looked up by block
				continue
			}
		}
	}
	return mi
}

// runArm executes one arm speculatively under guard g and returns the locations it wrote with their new values.
func (ex *Exec) runArm(fr *frame, arm *ssa.BasicBlock, g *Term) (writes map[*Loc]Value, ok bool) {
	ex.journal = map[*Loc]Value{}
	ex.spec++
	savedGuard := ex.guard
	ex.guard = g
	defer func() {
		old := ex.journal
		ex.journal = nil
		ex.spec--
		ex.guard = savedGuard
		// collect new values and undo
		writes = map[*Loc]Value{}
		for l, ov := range old {
			writes[l] = l.V
			l.V = ov
		}
		if r := recover(); r != nil {
			if _, isAbort := r.(specAbort); isAbort {
				ok = false
				return
			}
			panic(r)
		}
	}()
	for _, in := range arm.Instrs[:len(arm.Instrs)-1] {
		ex.steps++
		fr.curInst = in
		ex.step(fr, in)
	}
	return nil, true
}

func (ex *Exec) tryMerge(fr *frame, b *ssa.BasicBlock, c *Term) (*ssa.BasicBlock, bool) {
	if ex.spec > 0 || ex.guard != nil {
		return nil, false
	}
	mi := ex.mergeInfoFor(b)
	if !mi.ok {
		return nil, false
	}
	st := ex.st
	var wT, wF map[*Loc]Value
	ok := true
	if mi.armT != nil {
		wT, ok = ex.runArm(fr, mi.armT, c)
		if !ok {
			return nil, false
		}
	}
	if mi.armF != nil {
		wF, ok = ex.runArm(fr, mi.armF, st.Not(c))
		if !ok {
			return nil, false
		}
	}
	// merge memory
	merged := map[*Loc]Value{}
	mergeVal := func(a, bv Value) (Value, bool) {
		ta, okA := a.(*Term)
		tb, okB := bv.(*Term)
		if okA && okB && ta.W == tb.W {
			return st.Ite(c, ta, tb), true
		}
		if okA != okB {
			return nil, false
		}
		// non-term values: only identical values can be merged
		switch x := a.(type) {
		case Ptr:
			if y, ok := bv.(Ptr); ok && x == y {
				return a, true
			}
		case Slice:
			if y, ok := bv.(Slice); ok && x == y {
				return a, true
			}
		case nil:
			if bv == nil {
				return nil, true
			}
		}
		return nil, false
	}
	for l, v := range wT {
		other := l.V
		if w, ok := wF[l]; ok {
			other = w
		}
		m, ok := mergeVal(v, other)
		if !ok {
			return nil, false
		}
		merged[l] = m
	}
	for l, v := range wF {
		if _, done := merged[l]; done {
			continue
		}
		m, ok := mergeVal(l.V, v)
		if !ok {
			return nil, false
		}
		merged[l] = m
	}
	// phis of the join
	phis := map[*ssa.Phi]Value{}
	predT, predF := b, b
	if mi.armT != nil {
		predT = mi.armT
	}
	if mi.armF != nil {
		predF = mi.armF
	}
	for _, in := range mi.join.Instrs {
		phi, isPhi := in.(*ssa.Phi)
		if !isPhi {
			break
		}
		var vT, vF Value
		for k, p := range mi.join.Preds {
			if p == predT {
				vT = ex.get(fr, phi.Edges[k])
			}
			if p == predF {
				vF = ex.get(fr, phi.Edges[k])
			}
		}
		m, ok := mergeVal(vT, vF)
		if !ok {
			return nil, false
		}
		phis[phi] = m
	}
	for l, v := range merged {
		ex.setLeaf(l, v)
	}
	fr.phiOverride = phis
	fr.phiBlock = mi.join
	ex.Stats.Merges++
	return mi.join, true
}

// decodeRuneSym decodes one UTF-8 sequence whose lead byte is >= 0x80 and possibly symbolic, forking over
// the encoding classes of the Unicode standard (table 3-7); returns the rune term and the width.
func (ex *Exec) decodeRuneSym(b []*Term) (*Term, int) {
	st := ex.st
	c8 := func(v int) *Term { return st.Const(8, uint64(v)) }
	in := func(x *Term, lo, hi int) *Term {
		return st.And(st.Cmp(OUle, c8(lo), x), st.Cmp(OUle, x, c8(hi)))
	}
	bad := func() (*Term, int) { return st.Const(32, 0xFFFD), 1 }
	cont := func(x *Term) *Term { return st.ZExt(st.Extract(x, 5, 0), 32) }
	b0 := b[0]
	type cls struct{ lo, hi, n, lo1, hi1 int }
	classes := []cls{{0xC2, 0xDF, 2, 0x80, 0xBF}, {0xE0, 0xE0, 3, 0xA0, 0xBF}, {0xE1, 0xEC, 3, 0x80, 0xBF}, {0xED, 0xED, 3, 0x80, 0x9F},
		{0xEE, 0xEF, 3, 0x80, 0xBF}, {0xF0, 0xF0, 4, 0x90, 0xBF}, {0xF1, 0xF3, 4, 0x80, 0xBF}, {0xF4, 0xF4, 4, 0x80, 0x8F}}
	for _, c := range classes {
		if !ex.decide(in(b0, c.lo, c.hi)) {
			continue
		}
		if len(b) < c.n {
			return bad()
		}
		if !ex.decide(in(b[1], c.lo1, c.hi1)) {
			return bad()
		}
		for k := 2; k < c.n; k++ {
			if !ex.decide(in(b[k], 0x80, 0xBF)) {
				return bad()
			}
		}
		switch c.n {
		case 2:
			r := st.Bin(OBOr, st.Bin(OShl, st.ZExt(st.Extract(b0, 4, 0), 32), st.Const(32, 6)), cont(b[1]))
			return r, 2
		case 3:
			r := st.Bin(OBOr, st.Bin(OShl, st.ZExt(st.Extract(b0, 3, 0), 32), st.Const(32, 12)),
				st.Bin(OBOr, st.Bin(OShl, cont(b[1]), st.Const(32, 6)), cont(b[2])))
			return r, 3
		default:
			r := st.Bin(OBOr, st.Bin(OShl, st.ZExt(st.Extract(b0, 2, 0), 32), st.Const(32, 18)),
				st.Bin(OBOr, st.Bin(OShl, cont(b[1]), st.Const(32, 12)),
					st.Bin(OBOr, st.Bin(OShl, cont(b[2]), st.Const(32, 6)), cont(b[3]))))
			return r, 4
		}
	}
	return bad()
}

// encodeRuneSym is string(rune) for a symbolic rune: forks over the UTF-8 length classes.
func (ex *Exec) encodeRuneSym(t *Term) Value {
	st := ex.st
	r := t
	if r.W < 32 {
		r = st.ZExt(r, 32)
	} else if r.W > 32 {
		// values that do not fit 32 bits are invalid runes
		if !ex.decide(st.Cmp(OUle, r, st.Const(r.W, 0x10FFFF))) {
			return ex.mkStr("\uFFFD")
		}
		r = st.Trunc(r, 32)
	}
	c := func(v uint64) *Term { return st.Const(32, v) }
	b8 := func(x *Term) *Term { return st.Trunc(x, 8) }
	or := func(x *Term, k uint64) *Term { return st.Bin(OBOr, x, c(k)) }
	shr := func(x *Term, k uint64) *Term { return st.Bin(OLShr, x, c(k)) }
	low6 := func(x *Term) *Term { return st.Bin(OBAnd, x, c(0x3f)) }
	switch {
	case ex.decide(st.Cmp(OUlt, r, c(0x80))):
		return Str{B: []*Term{b8(r)}}
	case ex.decide(st.Cmp(OUlt, r, c(0x800))):
		return Str{B: []*Term{b8(or(shr(r, 6), 0xC0)), b8(or(low6(r), 0x80))}}
	case ex.decide(st.And(st.Cmp(OUle, c(0xD800), r), st.Cmp(OUle, r, c(0xDFFF)))):
		return ex.mkStr("\uFFFD")
	case ex.decide(st.Cmp(OUlt, r, c(0x10000))):
		return Str{B: []*Term{b8(or(shr(r, 12), 0xE0)), b8(or(low6(shr(r, 6)), 0x80)), b8(or(low6(r), 0x80))}}
	case ex.decide(st.Cmp(OUle, r, c(0x10FFFF))):
		return Str{B: []*Term{b8(or(shr(r, 18), 0xF0)), b8(or(low6(shr(r, 12)), 0x80)), b8(or(low6(shr(r, 6)), 0x80)), b8(or(low6(r), 0x80))}}
	}
	return ex.mkStr("\uFFFD")
}
