#!/bin/bash
# usage: tools/seed_eval.sh <seedid> <demo pkg dir> <check ids...>
# confirms a seeded change (suite passes with it, demo fails with it and passes without) in a scratch
# worktree, stores it under /verif/seeded/<seedid>/, then runs the given checks against /repo with the
# change applied and restores /repo.
set -u
export GOFLAGS=-mod=mod GOPROXY=off GOSUMDB=off GOTOOLCHAIN=local
id="$1"; pkg="$2"; shift 2
src=/tmp/seed_$id/SEED
dst=/verif/seeded/$id
mkdir -p $dst
cp $src/patch.diff $src/README.md $dst/ 2>/dev/null
cp $src/demo_test.go $dst/demo_test.go
wt=/tmp/seedchk_$id
git -C /repo worktree remove --force $wt >/dev/null 2>&1
git -C /repo worktree add -q $wt HEAD
( cd $wt && git apply $dst/patch.diff ) || { echo "PATCH DOES NOT APPLY"; exit 2; }
( cd $wt && go build ./... ) >/dev/null 2>&1 && b=ok || b=FAIL
suite=$( cd $wt && go test -vet=off -count=1 ./... 2>&1 | grep -v "no test files" | grep -vc "^ok" )
cp $dst/demo_test.go $wt/$pkg/zz_seed_demo_test.go
( cd $wt && go test -vet=off -count=1 -run 'Seed|Demo' ./$pkg/ ) >/tmp/seed_demo_with_$id.log 2>&1 && with=PASS || with=FAIL
( cd $wt && git apply -R $dst/patch.diff )
( cd $wt && go test -vet=off -count=1 -run 'Seed|Demo' ./$pkg/ ) >/tmp/seed_demo_without_$id.log 2>&1 && without=PASS || without=FAIL
git -C /repo worktree remove --force $wt
echo "seed $id: build=$b suite_nonok_lines=$suite demo_with_patch=$with demo_without_patch=$without"
res=""
git -C /repo apply $dst/patch.diff || { echo "cannot apply to /repo"; exit 2; }
for c in "$@"; do
  out=$(cd /verif && timeout 1500 ./check $c quick 2>&1)
  code=$?
  echo "$out" | grep -E "^C[0-9]+ quick|VIOLATION|INCONCLUSIVE|ENGINE" | head -4 | cut -c1-220
  res="$res $c:exit$code"
done
git -C /repo checkout -- .
echo "seed $id checks:$res"
cat > $dst/meta.json <<EOM
{"seed": "$id", "breaks_property": "$id", "demo_package_dir": "$pkg",
 "confirmed": {"build_with_patch": "$b", "existing_suite_non_ok_lines_with_patch": $suite, "demo_with_patch": "$with", "demo_without_patch": "$without"},
 "checks_run_quick": "$res",
 "what_it_needs": "see README.md (written by the seeding sub-agent, which saw only the property text and its own worktree)"}
EOM
