package sym

import (
	"crypto/md5"
	"encoding/hex"
	"fmt"
	"go/types"
	"math"
	"strconv"
	"strings"

	"golang.org/x/tools/go/ssa"
)

type intrinsic func(ex *Exec, fn *ssa.Function, args []Value) Value

// nativeObj is an object implemented by the engine and reachable through an interface value.
type nativeObj struct {
	name string
	call func(ex *Exec, method string, args []Value) Value
}

// InputMeta describes one solver input variable for replay.
type InputMeta struct {
	Name string // SMT symbol
	Tag  string // harness tag with occurrence, e.g. "ts#0"
	Idx  int    // byte index for Bytes inputs, -1 for scalars
	W    int
}

func sanitize(tag string) string {
	var sb strings.Builder
	for _, c := range tag {
		if c >= 'a' && c <= 'z' || c >= 'A' && c <= 'Z' || c >= '0' && c <= '9' || c == '_' {
			sb.WriteRune(c)
		} else {
			sb.WriteByte('_')
		}
	}
	return sb.String()
}

func (ex *Exec) concStr(v Value, what string) string {
	s, ok := v.(Str)
	if !ok {
		ex.unsupported(what + ": not a string")
	}
	cs, ok := s.Concrete()
	if !ok {
		ex.unsupported(what + ": symbolic string")
	}
	return cs
}

func (ex *Exec) concInt(v Value, what string) int {
	t := v.(*Term)
	if t.Op != OConst {
		ex.unsupported(what + ": symbolic integer")
	}
	return int(toSigned(t.Val, t.W))
}

func (ex *Exec) freshInput(tag string, w int) *Term {
	k := ex.tagCount[tag]
	ex.tagCount[tag] = k + 1
	name := fmt.Sprintf("in_%s_%d", sanitize(tag), k)
	t := ex.st.Var(name, w)
	ex.inputs = append(ex.inputs, t)
	ex.inputMeta[name] = InputMeta{Name: name, Tag: fmt.Sprintf("%s#%d", tag, k), Idx: -1, W: w}
	return t
}

func (ex *Exec) freshBytes(tag string, n int) []*Term {
	k := ex.tagCount[tag]
	ex.tagCount[tag] = k + 1
	out := make([]*Term, n)
	for i := 0; i < n; i++ {
		name := fmt.Sprintf("in_%s_%d_%d", sanitize(tag), k, i)
		t := ex.st.Var(name, 8)
		ex.inputs = append(ex.inputs, t)
		ex.inputMeta[name] = InputMeta{Name: name, Tag: fmt.Sprintf("%s#%d", tag, k), Idx: i, W: 8}
		out[i] = t
	}
	return out
}

func isVrt(name string) (string, bool) {
	const p = "pkg/zzvrt."
	i := strings.Index(name, p)
	if i < 0 {
		return "", false
	}
	return name[i+len(p):], true
}

func noop(ex *Exec, fn *ssa.Function, args []Value) Value {
	return ex.zeroResult(fn)
}

func (ex *Exec) zeroResult(fn *ssa.Function) Value {
	res := fn.Signature.Results()
	switch res.Len() {
	case 0:
		return nil
	case 1:
		return ex.zero(res.At(0).Type())
	}
	return ex.zero(res)
}

func buildIntrinsics() map[string]intrinsic {
	m := map[string]intrinsic{}
	for _, n := range []string{
		"(*sync.Mutex).Lock", "(*sync.Mutex).Unlock", "(*sync.RWMutex).Lock", "(*sync.RWMutex).Unlock",
		"(*sync.RWMutex).RLock", "(*sync.RWMutex).RUnlock", "(*sync.WaitGroup).Add", "(*sync.WaitGroup).Done",
		"(*sync.WaitGroup).Wait", "runtime.SetFinalizer", "runtime.KeepAlive", "runtime.GC", "runtime.Gosched",
		"(*sync.Cond).Broadcast", "(*sync.Cond).Signal", "(*strings.Builder).copyCheck", "time.Sleep",
		"(*sync.Pool).Put", "internal/race.Acquire", "internal/race.Release", "internal/race.ReleaseMerge",
		"internal/race.Enable", "internal/race.Disable", "internal/race.Read", "internal/race.Write",
		"internal/race.ReadRange", "internal/race.WriteRange", "(*sync.noCopy).Lock", "(*sync.noCopy).Unlock",
		"math/rand.Seed", "log.Printf", "log.Println", "fmt.Printf", "fmt.Println", "fmt.Print",
		"os.Exit_",
	} {
		m[n] = noop
	}
	m["(*sync.Mutex).TryLock"] = func(ex *Exec, fn *ssa.Function, a []Value) Value { return ex.st.T }
	m["(*sync.Pool).Get"] = func(ex *Exec, fn *ssa.Function, a []Value) Value {
		// pool is always empty: call New if set
		p := a[0].(Ptr)
		l := ex.derefLoc(p)
		st := l.T.Underlying().(*types.Struct)
		for i := 0; i < st.NumFields(); i++ {
			if st.Field(i).Name() == "New" {
				if f, ok := l.F[i].V.(*Func); ok && f != nil {
					return ex.callValue(nil, f, nil)
				}
			}
		}
		return Iface{}
	}
	m["(*sync.Once).Do"] = func(ex *Exec, fn *ssa.Function, a []Value) Value {
		p := a[0].(Ptr)
		l := ex.derefLoc(p)
		if !ex.onceDone[l] {
			ex.onceDone[l] = true
			ex.callValue(nil, a[1], nil)
		}
		return nil
	}
	// math bit casts
	id := func(ex *Exec, fn *ssa.Function, a []Value) Value { return a[0] }
	m["math.Float64bits"] = id
	m["math.Float64frombits"] = id
	m["math.Float32bits"] = id
	m["math.Float32frombits"] = id
	for name, f := range map[string]func(float64) float64{
		"math.Floor": math.Floor, "math.Ceil": math.Ceil, "math.Round": math.Round, "math.Trunc": math.Trunc,
		"math.Sqrt": math.Sqrt, "math.Abs": math.Abs, "math.Log2": math.Log2, "math.Log": math.Log, "math.Log10": math.Log10,
	} {
		f := f
		nm := name
		m[name] = func(ex *Exec, fn *ssa.Function, a []Value) Value {
			t := a[0].(*Term)
			if t.Op != OConst {
				return ex.st.App("uf_"+strings.ReplaceAll(nm, ".", "_"), 64, t)
			}
			return ex.st.Const(64, math.Float64bits(f(math.Float64frombits(t.Val))))
		}
	}
	m["math.IsNaN"] = func(ex *Exec, fn *ssa.Function, a []Value) Value {
		t := a[0].(*Term)
		return ex.st.Not(ex.fpBinTerm("eq", t, t))
	}
	// time
	m["time.Now"] = func(ex *Exec, fn *ssa.Function, a []Value) Value {
		if step, ok := ex.extState["concreteClockStep"].(uint64); ok {
			cur, _ := ex.extState["concreteClock"].(uint64)
			cur += step
			ex.extState["concreteClock"] = cur
			z := ex.zero(fn.Signature.Results().At(0).Type()).(*Struct)
			z.F[1] = ex.st.Const(64, cur)
			return z
		}
		now := ex.freshInput("clock", 64)
		st := ex.st
		// clock readings are non-negative nanoseconds below 2^62 and non-decreasing
		ex.assume(st.Cmp(OUlt, now, st.Const(64, 1<<62)))
		if ex.clock != nil {
			ex.assume(st.Cmp(OUle, ex.clock, now))
		}
		ex.clock = now
		z := ex.zero(fn.Signature.Results().At(0).Type()).(*Struct)
		z.F[1] = now // ext holds the nanosecond reading
		return z
	}
	nanos := func(a []Value) *Term { return a[0].(*Struct).F[1].(*Term) }
	m["(time.Time).UnixNano"] = func(ex *Exec, fn *ssa.Function, a []Value) Value { return nanos(a) }
	m["(time.Time).UnixMilli"] = func(ex *Exec, fn *ssa.Function, a []Value) Value {
		return ex.st.Bin(OUDiv, nanos(a), ex.st.Const(64, 1000000))
	}
	m["(time.Time).Unix"] = func(ex *Exec, fn *ssa.Function, a []Value) Value {
		return ex.st.Bin(OUDiv, nanos(a), ex.st.Const(64, 1000000000))
	}
	m["(time.Time).Sub"] = func(ex *Exec, fn *ssa.Function, a []Value) Value {
		return ex.st.Bin(OSub, nanos(a), a[1].(*Struct).F[1].(*Term))
	}
	m["time.Since"] = func(ex *Exec, fn *ssa.Function, a []Value) Value {
		now := ex.intr["time.Now"](ex, ex.timeNowFn(), nil).(*Struct)
		return ex.st.Bin(OSub, now.F[1].(*Term), nanos(a))
	}
	m["(time.Time).Format"] = func(ex *Exec, fn *ssa.Function, a []Value) Value {
		ex.notePlaceholder("time.Format of a symbolic clock reading")
		return ex.mkStr("Thu, 01 Jan 1970 00:00:00 UTC")
	}
	m["(time.Time).Add"] = func(ex *Exec, fn *ssa.Function, a []Value) Value {
		z := &Struct{F: append([]Value{}, a[0].(*Struct).F...)}
		z.F[1] = ex.st.Bin(OAdd, nanos(a), a[1].(*Term))
		return z
	}
	m["(time.Time).Before"] = func(ex *Exec, fn *ssa.Function, a []Value) Value {
		return ex.st.Cmp(OSlt, nanos(a), a[1].(*Struct).F[1].(*Term))
	}
	m["(time.Time).After"] = func(ex *Exec, fn *ssa.Function, a []Value) Value {
		return ex.st.Cmp(OSlt, a[1].(*Struct).F[1].(*Term), nanos(a))
	}
	// randomness: arbitrary values
	m["math/rand.Uint32"] = func(ex *Exec, fn *ssa.Function, a []Value) Value { return ex.freshInput("rand", 32) }
	m["math/rand.Int31"] = func(ex *Exec, fn *ssa.Function, a []Value) Value {
		return ex.st.ZExt(ex.freshInput("rand31", 31), 32)
	}
	m["math/rand.Int63"] = func(ex *Exec, fn *ssa.Function, a []Value) Value {
		return ex.st.ZExt(ex.freshInput("rand63", 63), 64)
	}
	m["math/rand.Int"] = m["math/rand.Int63"]
	m["math/rand.Intn"] = func(ex *Exec, fn *ssa.Function, a []Value) Value {
		n := a[0].(*Term)
		ex.require(ex.st.Cmp(OSlt, ex.st.Const(64, 0), n), "rand.Intn: invalid argument")
		r := ex.freshInput("randn", 64)
		ex.assume(ex.st.Cmp(OUlt, r, n))
		return r
	}
	m["math/rand.Read"] = func(ex *Exec, fn *ssa.Function, a []Value) Value {
		s := a[0].(Slice)
		b := ex.freshBytes("randbytes", s.Len)
		for i := range b {
			s.Arr.E[s.Off+i].V = b[i]
		}
		return Tuple{ex.st.Const(64, uint64(s.Len)), Iface{}}
	}
	m["crypto/rand.Read"] = m["math/rand.Read"]
	// atomics
	load := func(ex *Exec, fn *ssa.Function, a []Value) Value { return ex.loadPtr(a[0].(Ptr)) }
	store := func(ex *Exec, fn *ssa.Function, a []Value) Value { ex.storePtr(a[0].(Ptr), a[1]); return nil }
	add := func(ex *Exec, fn *ssa.Function, a []Value) Value {
		v := ex.st.Bin(OAdd, ex.loadPtr(a[0].(Ptr)).(*Term), a[1].(*Term))
		ex.storePtr(a[0].(Ptr), v)
		return v
	}
	swap := func(ex *Exec, fn *ssa.Function, a []Value) Value {
		old := ex.loadPtr(a[0].(Ptr))
		ex.storePtr(a[0].(Ptr), a[1])
		return old
	}
	cas := func(ex *Exec, fn *ssa.Function, a []Value) Value {
		old := ex.loadPtr(a[0].(Ptr))
		c := ex.valueEq(old, a[1])
		if ex.decide(c) {
			ex.storePtr(a[0].(Ptr), a[2])
			return ex.st.T
		}
		return ex.st.F
	}
	for _, t := range []string{"Int32", "Int64", "Uint32", "Uint64", "Uintptr", "Pointer"} {
		m["sync/atomic.Load"+t] = load
		m["sync/atomic.Store"+t] = store
		m["sync/atomic.Add"+t] = add
		m["sync/atomic.Swap"+t] = swap
		m["sync/atomic.CompareAndSwap"+t] = cas
	}
	// bytealg (assembly)
	m["internal/bytealg.IndexByte"] = func(ex *Exec, fn *ssa.Function, a []Value) Value {
		return ex.indexByte(ex.bytesOf(a[0].(Slice)), a[1].(*Term))
	}
	m["internal/bytealg.IndexByteString"] = func(ex *Exec, fn *ssa.Function, a []Value) Value {
		return ex.indexByte(a[0].(Str).B, a[1].(*Term))
	}
	m["internal/bytealg.Equal"] = func(ex *Exec, fn *ssa.Function, a []Value) Value {
		return ex.valueEq(Str{ex.bytesOf(a[0].(Slice))}, Str{ex.bytesOf(a[1].(Slice))})
	}
	m["internal/bytealg.Compare"] = func(ex *Exec, fn *ssa.Function, a []Value) Value {
		x, y := Str{ex.bytesOf(a[0].(Slice))}, Str{ex.bytesOf(a[1].(Slice))}
		return ex.compare3(x, y)
	}
	m["internal/bytealg.CompareString"] = func(ex *Exec, fn *ssa.Function, a []Value) Value {
		return ex.compare3(a[0].(Str), a[1].(Str))
	}
	m["strings.Compare"] = m["internal/bytealg.CompareString"]
	m["internal/bytealg.Count"] = func(ex *Exec, fn *ssa.Function, a []Value) Value {
		return ex.countByte(ex.bytesOf(a[0].(Slice)), a[1].(*Term))
	}
	m["internal/bytealg.CountString"] = func(ex *Exec, fn *ssa.Function, a []Value) Value {
		return ex.countByte(a[0].(Str).B, a[1].(*Term))
	}
	m["internal/bytealg.MakeNoZero"] = func(ex *Exec, fn *ssa.Function, a []Value) Value {
		n := ex.concInt(a[0], "MakeNoZero")
		return ex.mkByteSlice(ex.zeroBytes(n))
	}
	m["internal/bytealg.IndexString"] = func(ex *Exec, fn *ssa.Function, a []Value) Value {
		return ex.indexSub(a[0].(Str).B, a[1].(Str).B)
	}
	m["internal/bytealg.Index"] = func(ex *Exec, fn *ssa.Function, a []Value) Value {
		return ex.indexSub(ex.bytesOf(a[0].(Slice)), ex.bytesOf(a[1].(Slice)))
	}
	m["strings.Index"] = m["internal/bytealg.IndexString"]
	m["bytes.Index"] = m["internal/bytealg.Index"]
	m["strings.IndexByte"] = m["internal/bytealg.IndexByteString"]
	m["bytes.IndexByte"] = m["internal/bytealg.IndexByte"]
	m["bytes.Equal"] = m["internal/bytealg.Equal"]
	m["bytes.Compare"] = m["internal/bytealg.Compare"]
	m["strings.Clone"] = id
	m["internal/stringslite.Clone"] = id
	m["strings.ToLower"] = func(ex *Exec, fn *ssa.Function, a []Value) Value { return ex.mapCase(a[0].(Str), false) }
	m["strings.ToUpper"] = func(ex *Exec, fn *ssa.Function, a []Value) Value { return ex.mapCase(a[0].(Str), true) }
	m["strings.HasPrefix"] = func(ex *Exec, fn *ssa.Function, a []Value) Value {
		s, p := a[0].(Str), a[1].(Str)
		if len(s.B) < len(p.B) {
			return ex.st.F
		}
		return ex.valueEq(Str{s.B[:len(p.B)]}, p)
	}
	m["strings.HasSuffix"] = func(ex *Exec, fn *ssa.Function, a []Value) Value {
		s, p := a[0].(Str), a[1].(Str)
		if len(s.B) < len(p.B) {
			return ex.st.F
		}
		return ex.valueEq(Str{s.B[len(s.B)-len(p.B):]}, p)
	}
	m["bytes.HasPrefix"] = func(ex *Exec, fn *ssa.Function, a []Value) Value {
		s, p := ex.bytesOf(a[0].(Slice)), ex.bytesOf(a[1].(Slice))
		if len(s) < len(p) {
			return ex.st.F
		}
		return ex.valueEq(Str{s[:len(p)]}, Str{p})
	}
	m["bytes.HasSuffix"] = func(ex *Exec, fn *ssa.Function, a []Value) Value {
		s, p := ex.bytesOf(a[0].(Slice)), ex.bytesOf(a[1].(Slice))
		if len(s) < len(p) {
			return ex.st.F
		}
		return ex.valueEq(Str{s[len(s)-len(p):]}, Str{p})
	}
	// errors / fmt
	m["fmt.Errorf"] = func(ex *Exec, fn *ssa.Function, a []Value) Value {
		return ex.mkError(ex.sprintf(a[0], a[1]))
	}
	m["fmt.Sprintf"] = func(ex *Exec, fn *ssa.Function, a []Value) Value {
		return ex.sprintf(a[0], a[1])
	}
	m["fmt.Sprint"] = func(ex *Exec, fn *ssa.Function, a []Value) Value {
		return ex.sprintf(nil, a[0])
	}
	m["fmt.Sprintln"] = func(ex *Exec, fn *ssa.Function, a []Value) Value {
		s := ex.sprintf(nil, a[0]).(Str)
		return Str{B: append(append([]*Term{}, s.B...), ex.byteConst('\n'))}
	}
	m["fmt.Fprintf"] = func(ex *Exec, fn *ssa.Function, a []Value) Value {
		s := ex.sprintf(a[1], a[2]).(Str)
		w := a[0].(Iface)
		wm := ex.findMethod(w.T, "Write")
		if wm == nil {
			ex.unsupported("Fprintf to writer without Write")
		}
		return ex.callFunction(wm, []Value{w.V, ex.mkByteSlice(append([]*Term{}, s.B...))})
	}
	m["errors.Is"] = func(ex *Exec, fn *ssa.Function, a []Value) Value {
		e, target := a[0].(Iface), a[1].(Iface)
		for depth := 0; depth < 16 && e.T != nil; depth++ {
			if c := ex.valueEq(e, target); c.IsTrue() {
				return ex.st.T
			}
			um := ex.findMethod(e.T, "Unwrap")
			if um == nil || um.Signature.Results().Len() != 1 {
				break
			}
			r, ok := ex.callFunction(um, []Value{e.V}).(Iface)
			if !ok {
				break
			}
			e = r
		}
		return ex.st.F
	}
	m["github.com/q191201771/naza/pkg/nazaerrors.Wrap"] = func(ex *Exec, fn *ssa.Function, a []Value) Value { return a[0] }
	m["github.com/q191201771/naza/pkg/nazamd5.Md5"] = func(ex *Exec, fn *ssa.Function, a []Value) Value {
		// MD5 as a collision-free function: concrete input is hashed natively; symbolic input gets an
		// uninterpreted digest (32 lowercase hex characters) constrained, against every digest taken earlier on
		// this path, by  inputs equal <=> digests equal  (the standard cryptographic abstraction).
		bs := ex.bytesOf(a[0].(Slice))
		var out []*Term
		concrete := true
		raw := make([]byte, len(bs))
		for i, b := range bs {
			if b.Op != OConst {
				concrete = false
				break
			}
			raw[i] = byte(b.Val)
		}
		if concrete {
			sum := md5.Sum(raw)
			out = ex.mkStr(hex.EncodeToString(sum[:])).B
		} else {
			out = ex.freshBytes("md5", 32)
			for _, o := range out {
				lo := ex.st.And(ex.st.Cmp(OUle, ex.st.Const(8, '0'), o), ex.st.Cmp(OUle, o, ex.st.Const(8, '9')))
				hi := ex.st.And(ex.st.Cmp(OUle, ex.st.Const(8, 'a'), o), ex.st.Cmp(OUle, o, ex.st.Const(8, 'f')))
				ex.assume(ex.st.Or(lo, hi))
			}
		}
		eqAll := func(x, y []*Term) *Term {
			if len(x) != len(y) {
				return ex.st.F
			}
			r := ex.st.T
			for i := range x {
				r = ex.st.And(r, ex.st.Eq(x[i], y[i]))
			}
			return r
		}
		for _, p := range ex.md5Seen {
			if concrete && p.concrete {
				continue
			}
			ein, eout := eqAll(bs, p.in), eqAll(out, p.out)
			ex.assume(ex.st.Or(ex.st.And(ein, eout), ex.st.And(ex.st.Not(ein), ex.st.Not(eout))))
		}
		ex.md5Seen = append(ex.md5Seen, md5Entry{in: append([]*Term{}, bs...), out: out, concrete: concrete})
		return Str{B: out}
	}
	m["(*github.com/q191201771/lal/pkg/gb28181.PubSession).Listen"] = func(ex *Exec, fn *ssa.Function, a []Value) Value {
		// network stub: binding the port succeeds (native replay binds a real UDP port)
		return Tuple{ex.st.Const(64, 30000), Iface{}}
	}
	m["os.Getwd"] = func(ex *Exec, fn *ssa.Function, a []Value) Value { return Tuple{ex.mkStr("/"), Iface{}} }
	m["encoding/hex.Dump"] = func(ex *Exec, fn *ssa.Function, a []Value) Value {
		ex.notePlaceholder("hex.Dump")
		return ex.mkStr("<hexdump>")
	}
	m["os.Exit"] = func(ex *Exec, fn *ssa.Function, a []Value) Value {
		ex.require(ex.st.F, "os.Exit called")
		return nil
	}
	m["github.com/q191201771/naza/pkg/fake.Os_Exit"] = m["os.Exit"]
	// encoding/binary.Write by dynamic type (real one uses reflection)
	m["encoding/binary.Write"] = func(ex *Exec, fn *ssa.Function, a []Value) Value {
		w, order, data := a[0].(Iface), a[1].(Iface), a[2].(Iface)
		big := strings.Contains(order.T.String(), "bigEndian")
		var t *Term
		switch v := data.V.(type) {
		case *Term:
			t = v
		default:
			ex.unsupported("binary.Write of " + data.T.String())
		}
		if t.W == 0 {
			t = ex.st.Ite(t, ex.st.Const(8, 1), ex.st.Const(8, 0))
		}
		n := t.W / 8
		bs := make([]*Term, n)
		for i := 0; i < n; i++ {
			b := ex.st.Extract(t, i*8+7, i*8)
			if big {
				bs[n-1-i] = b
			} else {
				bs[i] = b
			}
		}
		wm := ex.findMethod(w.T, "Write")
		if wm == nil {
			ex.unsupported("binary.Write to writer without Write")
		}
		r := ex.callFunction(wm, []Value{w.V, ex.mkByteSlice(bs)}).(Tuple)
		return r[1]
	}
	return m
}

func (ex *Exec) timeNowFn() *ssa.Function {
	return ex.prog.ImportedPackage("time").Func("Now")
}

func (ex *Exec) fpBinTerm(op string, a, b *Term) *Term {
	if a.Op == OConst && b.Op == OConst {
		x, y := math.Float64frombits(a.Val), math.Float64frombits(b.Val)
		switch op {
		case "eq":
			return ex.st.Bool(x == y)
		case "lt":
			return ex.st.Bool(x < y)
		}
	}
	return ex.st.App("fp:"+op+"64", 0, a, b)
}

func (ex *Exec) zeroBytes(n int) []*Term {
	z := ex.byteConst(0)
	out := make([]*Term, n)
	for i := range out {
		out[i] = z
	}
	return out
}

func (ex *Exec) findMethod(t types.Type, name string) *ssa.Function {
	ms := ex.prog.MethodSets.MethodSet(t)
	for i := 0; i < ms.Len(); i++ {
		if ms.At(i).Obj().Name() == name {
			return ex.prog.MethodValue(ms.At(i))
		}
	}
	return nil
}

// mkError builds an error value with concrete text (type *errors.errorString).
func (ex *Exec) mkError(msg Value) Value {
	ep := ex.prog.ImportedPackage("errors")
	if ep == nil {
		ex.unsupported("errors package not loaded")
	}
	et := ep.Type("errorString").Type()
	l := ex.newLoc(et)
	l.F[0].V = msg
	return Iface{T: types.NewPointer(et), V: Ptr{L: l}}
}

// sprintf formats with concrete arguments where possible; symbolic arguments render as "<sym>".
func (ex *Exec) sprintf(format Value, argv Value) Value {
	var args []interface{}
	// symbolic strings / byte slices are formatted exactly: each is replaced by a unique marker for the native
	// formatter and spliced back as its byte terms afterwards (%s and %v; a verb that rewrites the marker, such
	// as %q or %x, falls back to the placeholder)
	var spliced [][]*Term
	if s, ok := argv.(Slice); ok {
		for k := 0; k < s.Len; k++ {
			v := s.Arr.E[s.Off+k].V
			if bs, ok := ex.symbolicText(v); ok {
				args = append(args, fmt.Sprintf("\x01SYM%d\x02", len(spliced)))
				spliced = append(spliced, bs)
				continue
			}
			args = append(args, ex.toNative(v))
		}
	}
	var out string
	if format == nil {
		out = fmt.Sprint(args...)
	} else {
		f, ok := format.(Str).Concrete()
		if !ok {
			ex.notePlaceholder("symbolic format string")
			return ex.mkStr("<symbolic-format>")
		}
		out = fmt.Sprintf(f, args...)
	}
	if strings.Contains(out, "<sym>") {
		ex.notePlaceholder("symbolic non-text argument")
	}
	if len(spliced) == 0 {
		return ex.mkStr(out)
	}
	var res []*Term
	for len(out) > 0 {
		i := strings.Index(out, "\x01SYM")
		if i < 0 {
			res = append(res, ex.mkStr(out).B...)
			break
		}
		res = append(res, ex.mkStr(out[:i]).B...)
		j := strings.IndexByte(out[i:], 2)
		if j < 0 {
			ex.notePlaceholder("marker rewritten by the verb")
			return ex.mkStr("<sym>")
		}
		k, err := strconv.Atoi(out[i+4 : i+j])
		if err != nil || k < 0 || k >= len(spliced) {
			ex.notePlaceholder("marker rewritten by the verb")
			return ex.mkStr("<sym>")
		}
		res = append(res, spliced[k]...)
		out = out[i+j+1:]
	}
	return Str{B: res}
}

// symbolicText returns the byte terms of an interface holding a string or []byte with at least one symbolic byte.
func (ex *Exec) symbolicText(v Value) ([]*Term, bool) {
	x, ok := v.(Iface)
	if !ok || x.T == nil {
		return nil, false
	}
	switch t := x.V.(type) {
	case Str:
		if _, c := t.Concrete(); !c && isString(x.T) {
			return t.B, true
		}
	}
	return nil, false
}

// notePlaceholder records that formatted text contains a placeholder instead of the real characters.
func (ex *Exec) notePlaceholder(why string) {
	if ex.Stats.Placeholders == nil {
		ex.Stats.Placeholders = map[string]int{}
	}
	ex.Stats.Placeholders[why+" @"+ex.whereCaller()]++
}

type md5Entry struct {
	in, out  []*Term
	concrete bool
}

type symPlaceholder struct{}

func (symPlaceholder) String() string { return "<sym>" }
func (symPlaceholder) Format(f fmt.State, c rune) {
	fmt.Fprint(f, "<sym>")
}

// toNative converts a concrete value into a Go value usable with fmt.
func (ex *Exec) toNative(v Value) interface{} {
	switch x := v.(type) {
	case Iface:
		if x.T == nil {
			return nil
		}
		switch t := x.V.(type) {
		case *Term:
			if t.Op != OConst {
				return symPlaceholder{}
			}
			if isBool(x.T) {
				return t.Val != 0
			}
			if isFloat(x.T) {
				if t.W == 32 {
					return math.Float32frombits(uint32(t.Val))
				}
				return math.Float64frombits(t.Val)
			}
			if isSigned(x.T) {
				return toSigned(t.Val, t.W)
			}
			switch t.W {
			case 8:
				return uint8(t.Val)
			case 16:
				return uint16(t.Val)
			case 32:
				return uint32(t.Val)
			}
			return t.Val
		case Str:
			if cs, ok := t.Concrete(); ok {
				return cs
			}
			return symPlaceholder{}
		case Slice:
			if typeWidth(ex.sliceElemType(x.T)) == 8 {
				bs := ex.bytesOf(t)
				out := make([]byte, len(bs))
				for i, b := range bs {
					if b.Op != OConst {
						return symPlaceholder{}
					}
					out[i] = byte(b.Val)
				}
				return out
			}
			return fmt.Sprintf("<slice len=%d>", t.Len)
		case Ptr:
			// error values and Stringers: try Error() / String() with concrete result
			for _, mn := range []string{"Error", "String"} {
				if m := ex.findMethod(x.T, mn); m != nil && m.Signature.Params().Len() == 0 && m.Signature.Results().Len() == 1 && !t.IsNil() {
					if r, ok := ex.tryCall(m, []Value{x.V}); ok {
						if s, ok := r.(Str); ok {
							if cs, ok := s.Concrete(); ok {
								return cs
							}
						}
					}
					return symPlaceholder{}
				}
			}
			if t.IsNil() {
				return nil
			}
			return "<ptr>"
		case *Struct:
			for _, mn := range []string{"Error", "String"} {
				if m := ex.findMethod(x.T, mn); m != nil && m.Signature.Params().Len() == 0 && m.Signature.Results().Len() == 1 {
					if r, ok := ex.tryCall(m, []Value{x.V}); ok {
						if s, ok := r.(Str); ok {
							if cs, ok := s.Concrete(); ok {
								return cs
							}
						}
					}
					return symPlaceholder{}
				}
			}
			return "<struct>"
		}
		return "<value>"
	}
	return "<value>"
}

// tryCall runs fn and reports failure (unsupported construct) instead of ending the path.
func (ex *Exec) tryCall(fn *ssa.Function, args []Value) (res Value, ok bool) {
	saved := ex.stack
	defer func() {
		if r := recover(); r != nil {
			pe, isPE := r.(pathEnd)
			if !isPE || pe.kind != endUnsupported {
				panic(r)
			}
			ex.stack = saved
			ok = false
		}
	}()
	return ex.callFunction(fn, args), true
}

func (ex *Exec) indexByte(b []*Term, c *Term) Value {
	for i, x := range b {
		if ex.decide(ex.st.Eq(x, c)) {
			return ex.st.Const(64, uint64(i))
		}
	}
	return ex.st.Const(64, ^uint64(0))
}

func (ex *Exec) indexSub(s, sub []*Term) Value {
	n := len(sub)
	for i := 0; i+n <= len(s); i++ {
		if ex.decide(ex.valueEq(Str{s[i : i+n]}, Str{sub})) {
			return ex.st.Const(64, uint64(i))
		}
	}
	return ex.st.Const(64, ^uint64(0))
}

func (ex *Exec) countByte(b []*Term, c *Term) Value {
	st := ex.st
	r := st.Const(64, 0)
	for _, x := range b {
		r = st.Bin(OAdd, r, st.Ite(st.Eq(x, c), st.Const(64, 1), st.Const(64, 0)))
	}
	return r
}

func (ex *Exec) compare3(a, b Str) Value {
	st := ex.st
	eq := ex.valueEq(a, b)
	lt := ex.strLess(a, b, false)
	return st.Ite(eq, st.Const(64, 0), st.Ite(lt, st.Const(64, ^uint64(0)), st.Const(64, 1)))
}

// mapCase maps ASCII letters; bytes >= 0x80 are left unchanged (stated assumption: ASCII case mapping).
func (ex *Exec) mapCase(s Str, upper bool) Value {
	st := ex.st
	out := make([]*Term, len(s.B))
	for i, b := range s.B {
		var lo, hi byte = 'A', 'Z'
		delta := uint64(0x20)
		if upper {
			lo, hi = 'a', 'z'
		}
		in := st.And(st.Cmp(OUle, st.Const(8, uint64(lo)), b), st.Cmp(OUle, b, st.Const(8, uint64(hi))))
		out[i] = st.Ite(in, st.Bin(OBXor, b, st.Const(8, delta)), b)
	}
	return Str{B: out}
}

// intrinsicByPattern handles families of functions (vrt runtime, logging).
func (ex *Exec) intrinsicByPattern(fn *ssa.Function, name string) intrinsic {
	if v, ok := isVrt(name); ok {
		return ex.vrtIntrinsic(v)
	}
	if fn.Synthetic == "package initializer" && fn != ex.initTarget {
		return noop
	}
	if strings.HasPrefix(name, "github.com/q191201771/naza/pkg/nazalog.") {
		short := name[len("github.com/q191201771/naza/pkg/nazalog."):]
		if strings.HasPrefix(short, "Panic") || strings.HasPrefix(short, "Fatal") {
			return func(ex *Exec, fn *ssa.Function, a []Value) Value {
				ex.require(ex.st.F, "nazalog."+short+" (process terminates)")
				return nil
			}
		}
		if short == "GetGlobalLogger" || strings.HasPrefix(short, "New") || short == "Init" {
			return noop
		}
		if r := fn.Signature.Results(); r.Len() == 0 {
			return noop
		}
		return noop
	}
	if strings.HasPrefix(name, "(*github.com/q191201771/naza/pkg/nazalog.logger).") {
		short := name[strings.LastIndex(name, ".")+1:]
		if strings.HasPrefix(short, "Panic") || strings.HasPrefix(short, "Fatal") {
			return func(ex *Exec, fn *ssa.Function, a []Value) Value {
				ex.require(ex.st.F, "Log."+short+" (process terminates)")
				return nil
			}
		}
		return noop
	}
	return nil
}

// invokeIntrinsic intercepts interface method calls (logger interface).
func (ex *Exec) invokeIntrinsic(recv Iface, m *types.Func, args []Value) func() Value {
	if m.Pkg() != nil && m.Pkg().Path() == "github.com/q191201771/naza/pkg/mock" && m.Name() == "Now" {
		// nazalog.Clock / hls.Clock: arbitrary non-decreasing instants
		return func() Value { return ex.intr["time.Now"](ex, ex.timeNowFn(), nil) }
	}
	if m.Pkg() != nil && m.Pkg().Path() == "github.com/q191201771/naza/pkg/nazalog" {
		if sig, ok := m.Type().(*types.Signature); ok {
			if rcv := sig.Recv(); rcv != nil && strings.HasSuffix(rcv.Type().String(), "nazalog.Logger") {
				name := m.Name()
				if strings.HasPrefix(name, "Panic") || strings.HasPrefix(name, "Fatal") {
					return func() Value {
						ex.require(ex.st.F, "Log."+name+" (process terminates)")
						return nil
					}
				}
				if name == "GetOption" {
					return func() Value {
						z := ex.zero(sig.Results().At(0).Type()).(*Struct)
						st := sig.Results().At(0).Type().Underlying().(*types.Struct)
						for i := 0; i < st.NumFields(); i++ {
							if st.Field(i).Name() == "Level" {
								z.F[i] = ex.st.Const(z.F[i].(*Term).W, 1) // LevelDebug, the default configuration
							}
						}
						return z
					}
				}
				return func() Value {
					res := sig.Results()
					switch res.Len() {
					case 0:
						return nil
					case 1:
						return ex.zero(res.At(0).Type())
					}
					return ex.zero(res)
				}
			}
		}
	}
	return nil
}

func (ex *Exec) vrtIntrinsic(name string) intrinsic {
	st := ex.st
	switch name {
	case "U8", "U16", "U32", "U64", "Int", "I64", "I32":
		w := map[string]int{"U8": 8, "U16": 16, "U32": 32, "U64": 64, "Int": 64, "I64": 64, "I32": 32}[name]
		return func(ex *Exec, fn *ssa.Function, a []Value) Value {
			return ex.freshInput(ex.concStr(a[0], "vrt tag"), w)
		}
	case "Bool":
		return func(ex *Exec, fn *ssa.Function, a []Value) Value {
			return ex.freshInput(ex.concStr(a[0], "vrt tag"), 0)
		}
	case "Range":
		return func(ex *Exec, fn *ssa.Function, a []Value) Value {
			v := ex.freshInput(ex.concStr(a[0], "vrt tag"), 64)
			ex.assume(st.Cmp(OSle, a[1].(*Term), v))
			ex.assume(st.Cmp(OSle, v, a[2].(*Term)))
			return v
		}
	case "Bytes":
		return func(ex *Exec, fn *ssa.Function, a []Value) Value {
			n := ex.concInt(a[1], "vrt.Bytes length")
			return ex.mkByteSlice(ex.freshBytes(ex.concStr(a[0], "vrt tag"), n))
		}
	case "Str":
		return func(ex *Exec, fn *ssa.Function, a []Value) Value {
			n := ex.concInt(a[1], "vrt.Str length")
			return Str{B: ex.freshBytes(ex.concStr(a[0], "vrt tag"), n)}
		}
	case "Param":
		return func(ex *Exec, fn *ssa.Function, a []Value) Value {
			k := ex.concStr(a[0], "vrt.Param name")
			v, ok := ex.opt.Params[k]
			if !ok {
				ex.unsupported("missing instance parameter " + k)
			}
			return st.Const(64, uint64(int64(v)))
		}
	case "Assume":
		return func(ex *Exec, fn *ssa.Function, a []Value) Value {
			c := a[0].(*Term)
			if c.IsTrue() {
				return nil
			}
			if c.IsFalse() {
				panic(pathEnd{endInfeasible, ""})
			}
			ex.assume(c)
			if ex.check(nil) == Unsat {
				panic(pathEnd{endInfeasible, ""})
			}
			return nil
		}
	case "Assert":
		return func(ex *Exec, fn *ssa.Function, a []Value) Value {
			ex.assertOb(a[0].(*Term), ex.concStr(a[1], "vrt.Assert label"))
			return nil
		}
	case "Cover":
		return func(ex *Exec, fn *ssa.Function, a []Value) Value {
			ex.Stats.Covers[ex.concStr(a[0], "vrt.Cover label")]++
			return nil
		}
	case "Stop":
		return func(ex *Exec, fn *ssa.Function, a []Value) Value {
			panic(pathEnd{endStop, ""})
		}
	case "Pick":
		return func(ex *Exec, fn *ssa.Function, a []Value) Value {
			t := a[0].(*Term)
			return st.Const(t.W, ex.choose(t, "vrt.Pick"))
		}
	case "LoopBudget":
		return func(ex *Exec, fn *ssa.Function, a []Value) Value {
			ex.opt.LoopBudget = ex.concInt(a[0], "vrt.LoopBudget")
			return nil
		}
	case "MaxRecursion":
		return func(ex *Exec, fn *ssa.Function, a []Value) Value {
			ex.opt.MaxRecursion = ex.concInt(a[0], "vrt.MaxRecursion")
			return nil
		}
	case "Spawned":
		return func(ex *Exec, fn *ssa.Function, a []Value) Value {
			return st.Const(64, uint64(len(ex.ghost)))
		}
	case "And":
		return func(ex *Exec, fn *ssa.Function, a []Value) Value { return st.And(a[0].(*Term), a[1].(*Term)) }
	case "Or":
		return func(ex *Exec, fn *ssa.Function, a []Value) Value { return st.Or(a[0].(*Term), a[1].(*Term)) }
	case "Ite":
		return func(ex *Exec, fn *ssa.Function, a []Value) Value {
			return st.Ite(a[0].(*Term), a[1].(*Term), a[2].(*Term))
		}
	case "ConcreteClock":
		return func(ex *Exec, fn *ssa.Function, a []Value) Value {
			ex.extState["concreteClock"] = uint64(ex.concInt(a[0], "vrt.ConcreteClock start"))
			ex.extState["concreteClockStep"] = uint64(ex.concInt(a[1], "vrt.ConcreteClock step"))
			return nil
		}
	case "Symbolic":
		return func(ex *Exec, fn *ssa.Function, a []Value) Value { return st.T }
	case "NativeSleepMs":
		return noop
	case "BlackholeAddr":
		// natively a listener that never answers; goroutines are not executed here, so any address will do
		return func(ex *Exec, fn *ssa.Function, a []Value) Value { return ex.mkStr("127.0.0.1:9") }
	case "init":
		return noop
	}
	return func(ex *Exec, fn *ssa.Function, a []Value) Value {
		ex.unsupported("unknown vrt function " + name)
		return nil
	}
}
