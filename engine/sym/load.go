package sym

import (
	"fmt"
	"os"
	"path/filepath"
	"strings"

	"golang.org/x/tools/go/packages"
	"golang.org/x/tools/go/ssa"
	"golang.org/x/tools/go/ssa/ssautil"
)

const ModulePath = "github.com/q191201771/lal"

// RepoDir is the tree under analysis: /repo for every registered check. GOSYM_REPO points a development
// run at a scratch worktree (used to try a repair before it is committed); registered commands never set it.
var RepoDir = func() string {
	if d := os.Getenv("GOSYM_REPO"); d != "" {
		return d
	}
	return "/repo"
}()

// Overlay maps virtual file paths under /repo to real files under /verif/harness.
type Overlay struct {
	Files map[string]string // virtual path -> real path
}

// BuildOverlay maps harness files into package directories:
// harness/<pkgdir-with-underscores>/x.go -> /repo/pkg/<pkg>/zz_verif_x.go ; harness/zzvrt -> /repo/pkg/zzvrt.
func BuildOverlay(verifDir string, pkgs map[string][]string) (*Overlay, error) {
	ov := &Overlay{Files: map[string]string{}}
	vrt := filepath.Join(verifDir, "harness", "zzvrt", "vrt.go")
	ov.Files[filepath.Join(RepoDir, "pkg", "zzvrt", "vrt.go")] = vrt
	ov.Files[filepath.Join(RepoDir, "pkg", "zzvkit", "kit.go")] = filepath.Join(verifDir, "harness", "zzvkit", "kit.go")
	for pkg, files := range pkgs {
		for _, f := range files {
			real := filepath.Join(verifDir, "harness", f)
			if _, err := os.Stat(real); err != nil {
				return nil, fmt.Errorf("harness file %s: %v", real, err)
			}
			base := filepath.Base(f)
			virt := filepath.Join(RepoDir, pkg, "zz_verif_"+base)
			ov.Files[virt] = real
		}
	}
	return ov, nil
}

func (ov *Overlay) bytes() (map[string][]byte, error) {
	m := map[string][]byte{}
	for v, r := range ov.Files {
		b, err := os.ReadFile(r)
		if err != nil {
			return nil, err
		}
		m[v] = b
	}
	return m, nil
}

func goEnv() []string {
	env := os.Environ()
	env = append(env, "GOFLAGS=-mod=mod", "GOPROXY=off", "GOSUMDB=off", "GOTOOLCHAIN=local")
	return env
}

// LoadProgram loads the given package directories (relative to /repo) with the overlay and builds SSA.
func LoadProgram(ov *Overlay, pkgDirs []string) (*ssa.Program, map[string]*ssa.Package, error) {
	obytes, err := ov.bytes()
	if err != nil {
		return nil, nil, err
	}
	cfg := &packages.Config{
		Mode:    packages.LoadAllSyntax,
		Dir:     RepoDir,
		Overlay: obytes,
		Env:     goEnv(),
	}
	var patterns []string
	for _, d := range pkgDirs {
		patterns = append(patterns, "./"+d)
	}
	pkgs, err := packages.Load(cfg, patterns...)
	if err != nil {
		return nil, nil, err
	}
	var errs []string
	packages.Visit(pkgs, nil, func(p *packages.Package) {
		for _, e := range p.Errors {
			errs = append(errs, e.Error())
		}
	})
	if len(errs) > 0 {
		if len(errs) > 20 {
			errs = errs[:20]
		}
		return nil, nil, fmt.Errorf("package load errors:\n%s", strings.Join(errs, "\n"))
	}
	prog, spkgs := ssautil.AllPackages(pkgs, ssa.InstantiateGenerics)
	prog.Build()
	out := map[string]*ssa.Package{}
	for i, p := range pkgs {
		rel := strings.TrimPrefix(p.PkgPath, ModulePath+"/")
		out[rel] = spkgs[i]
	}
	return prog, out, nil
}
