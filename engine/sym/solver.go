package sym

import (
	"bufio"
	"fmt"
	"io"
	"os"
	"os/exec"
	"strconv"
	"strings"
	"time"
)

// Result of a satisfiability query.
type Result int

const (
	Unsat Result = iota
	Sat
	Unknown
)

func (r Result) String() string { return [...]string{"unsat", "sat", "unknown"}[r] }

// Solver drives one persistent SMT solver process over pipes.
type Solver struct {
	Kind      string // "z3", "z3-new", "cvc5", "cvc5-int"
	TimeoutMs int
	cmd       *exec.Cmd
	in        io.WriteCloser
	out       *bufio.Reader
	st        *Store
	emitted   map[int]bool
	declFun   map[string]bool
	asserted  []*Term
	buf       strings.Builder
	Log       io.Writer // optional transcript

	Queries   int
	NSat      int
	NUnsat    int
	Killed    int
	NUnknown  int
	Errors    int
	Time      time.Duration
	LastError string
}

func solverArgv(kind string) []string {
	switch kind {
	case "z3":
		return []string{"/usr/bin/z3", "-in"}
	case "z3-new":
		return []string{"z3-new", "-in"}
	case "cvc5":
		return []string{"cvc5", "--incremental", "--produce-models", "--lang=smt2"}
	case "cvc5-int":
		return []string{"cvc5", "--incremental", "--produce-models", "--lang=smt2", "--solve-bv-as-int=sum"}
	}
	return []string{kind, "-in"}
}

func NewSolver(kind string, st *Store, timeoutMs int) (*Solver, error) {
	s := &Solver{Kind: kind, st: st, TimeoutMs: timeoutMs}
	if err := s.start(); err != nil {
		return nil, err
	}
	return s, nil
}

func (s *Solver) start() error {
	argv := solverArgv(s.Kind)
	s.cmd = exec.Command(argv[0], argv[1:]...)
	in, err := s.cmd.StdinPipe()
	if err != nil {
		return err
	}
	out, err := s.cmd.StdoutPipe()
	if err != nil {
		return err
	}
	s.cmd.Stderr = os.Stderr
	if err := s.cmd.Start(); err != nil {
		return err
	}
	s.in = in
	s.out = bufio.NewReaderSize(out, 1<<16)
	s.fresh()
	return nil
}

func (s *Solver) fresh() {
	s.emitted = map[int]bool{}
	s.declFun = map[string]bool{}
	s.asserted = nil
	s.send("(set-option :print-success false)\n")
	if strings.HasPrefix(s.Kind, "z3") {
		fmt.Fprintf(&s.buf, "(set-option :timeout %d)\n", s.TimeoutMs)
	} else {
		fmt.Fprintf(&s.buf, "(set-option :tlimit-per %d)\n(set-logic ALL)\n", s.TimeoutMs)
	}
}

func (s *Solver) Close() {
	if s.cmd != nil {
		s.in.Close()
		s.cmd.Process.Kill()
		s.cmd.Wait()
		s.cmd = nil
	}
}

func (s *Solver) send(txt string) { s.buf.WriteString(txt) }

func (s *Solver) flush() {
	if s.Log != nil {
		io.WriteString(s.Log, s.buf.String())
	}
	io.WriteString(s.in, s.buf.String())
	s.buf.Reset()
}

// Reset forgets all assertions and definitions.
func (s *Solver) Reset() {
	if strings.HasPrefix(s.Kind, "cvc5") {
		// cvc5 1.0 (reset) works but is slow to recover options; restart process instead
		s.buf.Reset()
		s.Close()
		if err := s.start(); err != nil {
			panic(err)
		}
		return
	}
	s.send("(reset)\n")
	s.fresh()
}

// emit writes declarations/definitions for t and its subterms.
func (s *Solver) emit(t *Term) {
	if t.Op == OConst {
		return
	}
	if s.emitted[t.ID] {
		return
	}
	s.emitted[t.ID] = true
	for _, a := range t.Args {
		s.emit(a)
	}
	switch t.Op {
	case OVar:
		fmt.Fprintf(&s.buf, "(declare-const %s %s)\n", t.Name, sortStr(t.W))
		return
	case OApp:
		if d, ok := s.st.Funs[t.Name]; ok && !s.declFun[t.Name] {
			s.declFun[t.Name] = true
			var as []string
			for _, w := range d.Args {
				as = append(as, sortStr(w))
			}
			fmt.Fprintf(&s.buf, "(declare-fun %s (%s) %s)\n", t.Name, strings.Join(as, " "), sortStr(d.Res))
		}
	}
	fmt.Fprintf(&s.buf, "(define-fun t%d () %s %s)\n", t.ID, sortStr(t.W), t.defStr())
}

// syncAsserts makes the solver's permanent assertion list equal to pc (reusing a common prefix).
func (s *Solver) syncAsserts(pc []*Term) {
	n := 0
	for n < len(pc) && n < len(s.asserted) && pc[n] == s.asserted[n] {
		n++
	}
	if n < len(s.asserted) {
		s.Reset()
		n = 0
	}
	for _, c := range pc[n:] {
		s.emit(c)
		fmt.Fprintf(&s.buf, "(assert %s)\n", c.leafStr())
		s.asserted = append(s.asserted, c)
	}
}

// Check decides pc ∧ extra. If vars is non-nil and the answer is sat, their model values are returned.
func (s *Solver) Check(pc []*Term, extra *Term, vars []*Term) (Result, map[string]uint64) {
	if extra != nil && extra.IsFalse() {
		return Unsat, nil
	}
	for _, c := range pc {
		if c.IsFalse() {
			return Unsat, nil
		}
	}
	t0 := time.Now()
	defer func() { s.Time += time.Since(t0) }()
	s.Queries++
	s.syncAsserts(pc)
	for _, v := range vars {
		s.emit(v)
	}
	if extra != nil {
		s.emit(extra)
		fmt.Fprintf(&s.buf, "(push 1)\n(assert %s)\n", extra.leafStr())
	}
	s.send("(check-sat)\n")
	s.flush()
	res := s.readResult()
	var model map[string]uint64
	if res == Sat && len(vars) > 0 {
		s.send("(get-value (")
		for _, v := range vars {
			s.send(v.leafStr() + " ")
		}
		s.send("))\n")
		s.flush()
		model = s.readModel(vars)
	}
	if extra != nil {
		s.send("(pop 1)\n")
	}
	switch res {
	case Sat:
		s.NSat++
	case Unsat:
		s.NUnsat++
	default:
		s.NUnknown++
	}
	return res, model
}

func (s *Solver) readLine() (string, bool) {
	line, err := s.out.ReadString('\n')
	if err != nil {
		s.LastError = "solver died: " + err.Error()
		s.Errors++
		// restart for subsequent queries
		s.Close()
		if e := s.start(); e != nil {
			panic(e)
		}
		return "", false
	}
	return strings.TrimSpace(line), true
}

func (s *Solver) readResult() Result {
	sawErr := false
	// hard watchdog: z3's :timeout is not honoured inside some preprocessing phases on very large terms;
	// a query that exceeds three times its budget is killed and counts as unknown (never as success)
	if s.cmd != nil && s.TimeoutMs > 0 {
		proc := s.cmd.Process
		wd := time.AfterFunc(time.Duration(3*s.TimeoutMs+5000)*time.Millisecond, func() {
			s.Killed++
			proc.Kill()
		})
		defer wd.Stop()
	}
	for {
		line, ok := s.readLine()
		if !ok {
			return Unknown
		}
		switch {
		case line == "sat":
			if sawErr {
				return Unknown
			}
			return Sat
		case line == "unsat":
			if sawErr {
				return Unknown
			}
			return Unsat
		case line == "unknown" || line == "timeout":
			return Unknown
		case strings.HasPrefix(line, "(error"):
			sawErr = true
			s.Errors++
			s.LastError = line
		case line == "":
		default:
			// unexpected text; treat as inconclusive evidence
			if strings.Contains(line, "error") {
				sawErr = true
				s.Errors++
				s.LastError = line
			}
		}
	}
}

func (s *Solver) readModel(vars []*Term) map[string]uint64 {
	// read until parentheses balance
	var sb strings.Builder
	depth, started := 0, false
	for {
		line, ok := s.readLine()
		if !ok {
			return nil
		}
		sb.WriteString(line)
		sb.WriteByte(' ')
		for _, ch := range line {
			if ch == '(' {
				depth++
				started = true
			} else if ch == ')' {
				depth--
			}
		}
		if started && depth <= 0 {
			break
		}
	}
	txt := sb.String()
	if strings.HasPrefix(strings.TrimSpace(txt), "(error") {
		s.Errors++
		s.LastError = txt
		return nil
	}
	m := map[string]uint64{}
	// tokens: ((name value) (name value) ...)
	txt = strings.NewReplacer("(", " ( ", ")", " ) ").Replace(txt)
	tok := strings.Fields(txt)
	for i := 0; i+2 < len(tok); i++ {
		if tok[i] != "(" || tok[i+1] == "(" {
			continue
		}
		name := tok[i+1]
		val := tok[i+2]
		switch {
		case val == "true":
			m[name] = 1
		case val == "false":
			m[name] = 0
		case strings.HasPrefix(val, "#x"):
			v, _ := strconv.ParseUint(val[2:], 16, 64)
			m[name] = v
		case strings.HasPrefix(val, "#b"):
			v, _ := strconv.ParseUint(val[2:], 2, 64)
			m[name] = v
		case val == "(" && i+4 < len(tok) && tok[i+3] == "_" && strings.HasPrefix(tok[i+4], "bv"):
			v, _ := strconv.ParseUint(tok[i+4][2:], 10, 64)
			m[name] = v
		}
	}
	return m
}

// Standalone renders a self-contained SMT-LIB2 script for pc ∧ extra (for cross-solver diffs).
func Standalone(st *Store, pc []*Term, extra *Term) string {
	tmp := &Solver{st: st, emitted: map[int]bool{}, declFun: map[string]bool{}}
	for _, c := range pc {
		tmp.emit(c)
		fmt.Fprintf(&tmp.buf, "(assert %s)\n", c.leafStr())
	}
	if extra != nil {
		tmp.emit(extra)
		fmt.Fprintf(&tmp.buf, "(assert %s)\n", extra.leafStr())
	}
	tmp.buf.WriteString("(check-sat)\n")
	return tmp.buf.String()
}
