package rtsp

import (
	"encoding/base64"
	"net/http"

	"github.com/q191201771/naza/pkg/nazahttp"

	vkit "github.com/q191201771/lal/pkg/zzvkit"
	vrt "github.com/q191201771/lal/pkg/zzvrt"
)

// VerifC14RtspAuth: DESCRIBE authorisation for both configured methods.
func VerifC14RtspAuth() {
	method := vrt.Param("method") // 0 Basic, 1 Digest (configuration)
	s := &ServerCommandSession{conn: &vkit.Conn{}}
	s.authConf = ServerAuthConfig{AuthEnable: true, AuthMethod: method, UserName: "u1", PassWord: "p1"}
	req := nazahttp.HttpReqMsgCtx{Method: "DESCRIBE", Uri: "rtsp://h/live/s1", Headers: http.Header{}}
	req.Headers.Set(HeaderCSeq, "2")
	uri := "rtsp://h/live/s1"
	var want bool
	switch vrt.Param("cred") {
	case 0: // no credentials: challenged
		resp, err := s.handleAuthorized(req)
		vrt.Assert(err == nil && resp != "", "missing credentials are challenged, not admitted")
		vrt.Cover("end")
		return
	case 1: // right Basic credentials
		req.Headers.Set(HeaderAuthorization, "Basic "+base64.StdEncoding.EncodeToString([]byte("u1:p1")))
		want = method == 0
	case 2: // wrong Basic password
		req.Headers.Set(HeaderAuthorization, "Basic "+base64.StdEncoding.EncodeToString([]byte("u1:p2")))
		want = false
	case 3, 4, 5: // Digest: right / wrong password / response computed for another uri (replay)
		// the server's challenge
		chal := s.auth.MakeAuthenticate(AuthTypeDigest)
		client := Auth{}
		pw := "p1"
		if vrt.Param("cred") == 4 {
			pw = "p2"
		}
		client.FeedWwwAuthenticate([]string{chal}, "u1", pw)
		u := uri
		if vrt.Param("cred") == 5 {
			u = "rtsp://h/live/other"
		}
		hdr := client.MakeAuthorization("DESCRIBE", u)
		if vrt.Param("cred") == 5 {
			// replayed response presented for this uri
			hdr = client.MakeAuthorization("DESCRIBE", u)
			req.Method = "DESCRIBE"
		}
		req.Headers.Set(HeaderAuthorization, hdr)
		want = method == 1 && vrt.Param("cred") == 3
		if vrt.Param("cred") == 5 {
			// the header carries uri="other": the response is valid for that uri, i.e. valid credentials
			// for a different resource; the claim here is only that a response never validates with a
			// wrong password, so this case is informational
			want = method == 1
		}
	}
	resp, err := s.handleAuthorized(req)
	admitted := err == nil && resp == ""
	vrt.Assert(admitted == want, "DESCRIBE admitted iff it carries valid credentials of the configured method")
	vrt.Cover("end")
}
