package remux

import (
	"github.com/q191201771/lal/pkg/base"
	"github.com/q191201771/lal/pkg/mpegts"
	"github.com/q191201771/lal/pkg/rtprtcp"
	"github.com/q191201771/lal/pkg/sdp"
	vrt "github.com/q191201771/lal/pkg/zzvrt"
)

var (
	c05Sps = []byte{0x67, 0x64, 0x00, 0x1f, 0xac, 0xd9, 0x40, 0x50, 0x05, 0xbb, 0x01, 0x10, 0x00, 0x00, 0x03, 0x00, 0x10, 0x00, 0x00, 0x03, 0x03, 0xc0, 0xf1, 0x83, 0x19, 0x60}
	c05Pps = []byte{0x68, 0xeb, 0xe3, 0xcb, 0x22, 0xc0}
)

type c05TsObserver struct {
	patpmt, packets int
}

func (o *c05TsObserver) OnPatPmt(b []byte) { o.patpmt++ }
func (o *c05TsObserver) OnTsPackets(tsPackets []byte, frame *mpegts.Frame, boundary bool) {
	o.packets++
	vrt.Assert(len(tsPackets)%188 == 0, "TS output is whole packets")
}

func c05AvcSeqHeader() base.RtmpMsg {
	p := []byte{0x17, 0, 0, 0, 0, 1, 0x64, 0, 0x1f, 0xff, 0xe1, 0, byte(len(c05Sps))}
	p = append(p, c05Sps...)
	p = append(p, 1, 0, byte(len(c05Pps)))
	p = append(p, c05Pps...)
	return base.RtmpMsg{Header: base.RtmpHeader{Csid: 6, MsgLen: uint32(len(p)), MsgTypeId: 9, MsgStreamId: 1}, Payload: p}
}

func c05AacSeqHeader() base.RtmpMsg {
	p := []byte{0xaf, 0x00, 0x12, 0x10}
	return base.RtmpMsg{Header: base.RtmpHeader{Csid: 4, MsgLen: 4, MsgTypeId: 8, MsgStreamId: 1}, Payload: p}
}

// c05Msg builds one message: type typ, prefix class pre, tail arbitrary bytes, arbitrary timestamp.
func c05Msg(tag string, typ, pre, tail int) base.RtmpMsg {
	var p []byte
	switch pre {
	case 1:
		p = []byte{0x17, 0, 0, 0, 0}
	case 2:
		p = []byte{0x17, 1}
	case 3:
		p = []byte{0x27, 1, 0, 0, 0}
	case 4:
		p = []byte{0xaf, 0}
	case 5:
		p = []byte{0xaf, 1}
	case 6:
		p = []byte{0x1c, 0, 0, 0, 0}
	case 7:
		p = []byte{0x1c, 1, 0, 0, 0}
	case 8:
		p = []byte{0x90, 'h', 'v', 'c', '1'}
	case 9:
		p = []byte{0x91, 'h', 'v', 'c', '1'}
	case 10:
		p = []byte{0x93, 'h', 'v', 'c', '1'}
	case 11: // well-formed AVC frame header + one NAL length field, NAL bytes arbitrary
		p = []byte{0x17, 1, 0, 0, 0, 0, 0, 0}
	case 12: // well-formed avcC record: one SPS of tail bytes (arbitrary) and a one-byte PPS
		p = []byte{0x17, 0, 0, 0, 0, 1, 0x64, 0, 0x1f, 0xff, 0xe1, 0, byte(tail)}
		p = append(p, vrt.Bytes(tag, tail)...)
		p = append(p, 1, 0, 1, 0x68)
		return base.RtmpMsg{
			Header:  base.RtmpHeader{Csid: 6, MsgLen: uint32(len(p)), MsgTypeId: uint8(typ), MsgStreamId: 1, TimestampAbs: vrt.U32(tag + "ts")},
			Payload: p,
		}
	case 14: // avcC record up to and including the SPS count; everything after it arbitrary
		p = []byte{0x17, 0, 0, 0, 0, 1, 0x64, 0, 0x1f, 0xff, 0xe1}
	case 13: // HEVC sequence header of the minimum record size with an arbitrary tail (reaches the record and Annex-B fallback parsers)
		p = make([]byte, 33)
		p[0] = 0x1c
	}
	p = append(p, vrt.Bytes(tag, tail)...)
	if len(p) == 0 {
		p = vrt.Bytes(tag+"nz", 1) // zero-length messages never reach a consumer (dropped by the group)
	}
	return base.RtmpMsg{
		Header:  base.RtmpHeader{Csid: 6, MsgLen: uint32(len(p)), MsgTypeId: uint8(typ), MsgStreamId: 1, TimestampAbs: vrt.U32(tag + "ts")},
		Payload: p,
	}
}

// VerifC05Consumer: one per-message consumer driven with [optional valid sequence headers] + two
// messages. No panic; every loop is bounded by the loop budget (processing time bounded by message
// size whatever the timestamps).
func VerifC05Consumer() {
	cons := vrt.Param("cons")
	setup := vrt.Param("setup")
	var msgs []base.RtmpMsg
	if setup == 1 {
		msgs = append(msgs, c05AvcSeqHeader(), c05AacSeqHeader())
	}
	msgs = append(msgs, c05Msg("m1", vrt.Param("typ1"), vrt.Param("pre1"), vrt.Param("tail1")))
	if vrt.Param("typ2") != 0 {
		msgs = append(msgs, c05Msg("m2", vrt.Param("typ2"), vrt.Param("pre2"), vrt.Param("tail2")))
	}
	switch cons {
	case 0: // GOP cache (RTMP / HTTP-FLV replay cache)
		gc := NewGopCache("rtmp", "uk", vrt.Param("gop"), 0)
		for _, m := range msgs {
			gc.Feed(m, m.Payload)
		}
	case 1: // RTMP -> MPEG-TS (HTTP-TS, HLS, TS recording)
		obs := &c05TsObserver{}
		r := NewRtmp2MpegtsRemuxer(obs)
		for _, m := range msgs {
			r.FeedRtmpMessage(m)
		}
		r.FlushAudio()
		r.Dispose()
	case 2: // RTMP -> RTSP
		r := NewRtmp2RtspRemuxer(func(sdpCtx sdp.LogicContext) {}, func(pkt rtprtcp.RtpPacket) {})
		for _, m := range msgs {
			r.FeedRtmpMsg(m)
		}
	case 3: // dummy audio insertion
		n := 0
		f := NewDummyAudioFilter("uk", vrt.Param("wait"), func(msg base.RtmpMsg) {
			n++
			vrt.Assert(n <= 64, "dummy audio filter emits a bounded number of messages whatever the timestamps")
		})
		for _, m := range msgs {
			f.Feed(m)
		}
	case 4: // stream hook (RTMP -> AvPacket)
		r := NewRtmp2AvPacketRemuxer().WithOnAvPacket(func(pkt base.AvPacket, arg interface{}) {})
		for _, m := range msgs {
			_ = r.FeedRtmpMsg(m, nil)
		}
	case 5: // lazy converters used for RTMP / FLV fan-out and relay push
		for _, m := range msgs {
			var d LazyRtmpChunkDivider
			d.Init(m)
			_ = d.GetEnsureWithoutSdf()
			_ = d.GetEnsureWithSdf()
			var t LazyRtmpMsg2FlvTag
			t.Init(m)
			_ = t.GetEnsureWithoutSdf()
		}
	case 6: // classifiers used by the group on every message
		for _, m := range msgs {
			_ = m.IsVideoKeySeqHeader()
			_ = m.IsVideoKeyNalu()
			if m.Header.MsgTypeId == base.RtmpTypeIdAudio {
				_ = m.AudioCodecId()
				_ = m.IsAacSeqHeader()
			}
			_ = m.IsAvcKeySeqHeader()
			_ = m.IsHevcKeySeqHeader()
		}
	}
	vrt.Cover("end")
}
