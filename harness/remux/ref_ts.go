package remux

// Reference MPEG-TS / PES demultiplexer written from ISO/IEC 13818-1 (2.4.3.2, 2.4.3.4, 2.4.3.6).
// Straight-line, shares no code with lal.

type refTsPacket struct {
	ok       bool
	why      string
	pusi     bool
	pid      uint16
	afc      uint8
	cc       uint8
	adaptLen int
	rai      bool
	pcrFlag  bool
	pcrBase  uint64
	pcrExt   uint16
	payload  []byte
}

func refParseTsPacket(p []byte) (r refTsPacket) {
	if len(p) != 188 {
		r.why = "not 188 bytes"
		return
	}
	if p[0] != 0x47 {
		r.why = "sync byte"
		return
	}
	if p[1]&0x80 != 0 {
		r.why = "transport_error_indicator set"
		return
	}
	r.pusi = p[1]&0x40 != 0
	r.pid = uint16(p[1]&0x1f)<<8 | uint16(p[2])
	if p[3]&0xc0 != 0 {
		r.why = "scrambling bits set"
		return
	}
	r.afc = (p[3] >> 4) & 3
	r.cc = p[3] & 0x0f
	pos := 4
	switch r.afc {
	case 0:
		r.why = "adaptation_field_control reserved"
		return
	case 1:
	case 2, 3:
		r.adaptLen = int(p[4])
		if r.afc == 3 && r.adaptLen > 182 {
			r.why = "adaptation_field_length > 182 with payload"
			return
		}
		if r.afc == 2 && r.adaptLen != 183 {
			r.why = "adaptation_field_length != 183 without payload"
			return
		}
		pos = 5 + r.adaptLen
		if r.adaptLen > 0 {
			flags := p[5]
			r.rai = flags&0x40 != 0
			r.pcrFlag = flags&0x10 != 0
			if flags&0x0f != 0 || flags&0x80 != 0 || flags&0x20 != 0 {
				r.why = "unexpected adaptation flags"
				return
			}
			q := 6
			if r.pcrFlag {
				if r.adaptLen < 7 {
					r.why = "PCR does not fit in adaptation field"
					return
				}
				r.pcrBase = uint64(p[6])<<25 | uint64(p[7])<<17 | uint64(p[8])<<9 | uint64(p[9])<<1 | uint64(p[10]>>7)
				if p[10]&0x7e != 0x7e {
					r.why = "PCR reserved bits"
					return
				}
				r.pcrExt = uint16(p[10]&1)<<8 | uint16(p[11])
				q = 12
			}
			for ; q < pos; q++ {
				if p[q] != 0xff {
					r.why = "stuffing byte not 0xFF"
					return
				}
			}
		}
	}
	r.payload = p[pos:]
	r.ok = true
	return
}

type refPes struct {
	ok     bool
	why    string
	sid    uint8
	pesLen int
	hasPts bool
	hasDts bool
	pts    uint64
	dts    uint64
	es     []byte
}

func refTimestamp(b []byte, prefix uint8) (uint64, bool) {
	if b[0]>>4 != prefix || b[0]&1 != 1 || b[2]&1 != 1 || b[4]&1 != 1 {
		return 0, false
	}
	v := uint64(b[0]>>1&7)<<30 | uint64(b[1])<<22 | uint64(b[2]>>1)<<15 | uint64(b[3])<<7 | uint64(b[4]>>1)
	return v, true
}

func refParsePes(b []byte) (r refPes) {
	if len(b) < 9 {
		r.why = "short PES"
		return
	}
	if b[0] != 0 || b[1] != 0 || b[2] != 1 {
		r.why = "PES start code"
		return
	}
	r.sid = b[3]
	r.pesLen = int(b[4])<<8 | int(b[5])
	if b[6]&0xc0 != 0x80 {
		r.why = "'10' marker"
		return
	}
	if b[6]&0x3f != 0 {
		r.why = "unexpected PES flags (byte 6)"
		return
	}
	ptsDts := b[7] >> 6
	if b[7]&0x3f != 0 {
		r.why = "unexpected PES flags (byte 7)"
		return
	}
	hdr := int(b[8])
	if len(b) < 9+hdr {
		r.why = "PES header data beyond buffer"
		return
	}
	switch ptsDts {
	case 2:
		if hdr != 5 {
			r.why = "PES_header_data_length != 5 for PTS only"
			return
		}
		v, ok := refTimestamp(b[9:14], 2)
		if !ok {
			r.why = "PTS marker bits"
			return
		}
		r.pts, r.hasPts = v, true
	case 3:
		if hdr != 10 {
			r.why = "PES_header_data_length != 10 for PTS+DTS"
			return
		}
		v, ok := refTimestamp(b[9:14], 3)
		if !ok {
			r.why = "PTS marker bits"
			return
		}
		w, ok := refTimestamp(b[14:19], 1)
		if !ok {
			r.why = "DTS marker bits"
			return
		}
		r.pts, r.dts, r.hasPts, r.hasDts = v, w, true, true
	default:
		r.why = "PTS_DTS_flags"
		return
	}
	r.es = b[9+hdr:]
	if r.pesLen != 0 && r.pesLen != 3+hdr+len(r.es) {
		r.why = "PES_packet_length inconsistent"
		return
	}
	r.ok = true
	return
}

// refCrc32Mpeg2 is the bitwise CRC-32/MPEG-2 (poly 0x04C11DB7, init 0xFFFFFFFF, no reflection, no final xor).
func refCrc32Mpeg2(b []byte) uint32 {
	crc := uint32(0xFFFFFFFF)
	for _, v := range b {
		crc ^= uint32(v) << 24
		for i := 0; i < 8; i++ {
			if crc&0x80000000 != 0 {
				crc = crc<<1 ^ 0x04C11DB7
			} else {
				crc <<= 1
			}
		}
	}
	return crc
}

type refPsiStream struct {
	streamType uint8
	pid        uint16
	desc       []byte
}

type refPsi struct {
	ok        bool
	why       string
	tableId   uint8
	sectionLn int
	progNum   uint16
	pmtPid    uint16 // PAT
	pcrPid    uint16 // PMT
	streams   []refPsiStream
}

// refParsePsiPacket parses a TS packet carrying one PAT or PMT section (pointer_field 0).
func refParsePsiPacket(p []byte, wantPid uint16) (r refPsi) {
	t := refParseTsPacket(p)
	if !t.ok {
		r.why = "ts: " + t.why
		return
	}
	if !t.pusi || t.pid != wantPid || t.afc != 1 {
		r.why = "ts header of PSI packet"
		return
	}
	b := t.payload
	if b[0] != 0 {
		r.why = "pointer_field"
		return
	}
	s := b[1:]
	r.tableId = s[0]
	if s[1]&0x80 == 0 || s[1]&0x40 != 0 {
		r.why = "section_syntax_indicator / private bit"
		return
	}
	r.sectionLn = int(s[1]&0x0f)<<8 | int(s[2])
	if r.sectionLn < 9 || 3+r.sectionLn > len(s) {
		r.why = "section_length"
		return
	}
	sec := s[:3+r.sectionLn]
	if refCrc32Mpeg2(sec) != 0 {
		r.why = "CRC-32 mismatch"
		return
	}
	for _, v := range s[3+r.sectionLn:] {
		if v != 0xff {
			r.why = "packet not padded with 0xFF"
			return
		}
	}
	r.progNum = uint16(sec[3])<<8 | uint16(sec[4])
	if sec[5]&1 != 1 {
		r.why = "current_next_indicator"
		return
	}
	if sec[6] != 0 || sec[7] != 0 {
		r.why = "section_number / last_section_number"
		return
	}
	body := sec[8 : len(sec)-4]
	switch r.tableId {
	case 0: // PAT
		if len(body) != 4 {
			r.why = "PAT with other than one program"
			return
		}
		if uint16(body[0])<<8|uint16(body[1]) != 1 {
			r.why = "program_number"
			return
		}
		r.pmtPid = uint16(body[2]&0x1f)<<8 | uint16(body[3])
	case 2: // PMT
		if len(body) < 4 {
			r.why = "short PMT"
			return
		}
		r.pcrPid = uint16(body[0]&0x1f)<<8 | uint16(body[1])
		pil := int(body[2]&0x0f)<<8 | int(body[3])
		if 4+pil > len(body) {
			r.why = "program_info_length"
			return
		}
		q := body[4+pil:]
		for len(q) > 0 {
			if len(q) < 5 {
				r.why = "truncated stream entry"
				return
			}
			st := refPsiStream{streamType: q[0], pid: uint16(q[1]&0x1f)<<8 | uint16(q[2])}
			eil := int(q[3]&0x0f)<<8 | int(q[4])
			if 5+eil > len(q) {
				r.why = "ES_info_length"
				return
			}
			st.desc = q[5 : 5+eil]
			r.streams = append(r.streams, st)
			q = q[5+eil:]
		}
	default:
		r.why = "table id"
		return
	}
	r.ok = true
	return
}
