package base

import (
	"bufio"

	vkit "github.com/q191201771/lal/pkg/zzvkit"
	vrt "github.com/q191201771/lal/pkg/zzvrt"
)

// VerifC13WsRead: arbitrary bytes on a WebSocket connection through the frame reader.
func VerifC13WsRead() {
	c := &vkit.Conn{In: vrt.Bytes("in", vrt.Param("n"))}
	r := bufio.NewReaderSize(c, 64)
	for i := 0; i < 2; i++ {
		_, err := ReadWsPayload(r)
		if err != nil {
			break
		}
	}
	vrt.Cover("end")
}
