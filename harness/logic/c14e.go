package logic

import (
	vrt "github.com/q191201771/lal/pkg/zzvrt"
)

// VerifC14Blacklist: the HLS address black list. The clock advances one second per reading (every Add and
// every Has reads it once); durations are arbitrary. An address is listed exactly from its latest Add until
// the expiry instant of that Add, other addresses are unaffected.
func VerifC14Blacklist() {
	steps := vrt.Param("steps")
	const start = 1700000000
	vrt.ConcreteClock(start*1000000000, 1000000000)
	var l IpBlacklist
	ips := []string{"10.0.0.1", "10.0.0.2"}
	until := []int64{-1, -1} // model: expiry second of the latest Add, -1 = never added or erased
	listed := []bool{false, false}
	now := int64(start)
	for s := 0; s < steps; s++ {
		op := vrt.Pick(vrt.Range("op", 0, 3))
		ip := op & 1
		if op < 2 {
			d := vrt.Range("dur", -3, 6)
			vrt.Assume(d >= -3 && d <= 6)
			l.Add(ips[ip], d)
			until[ip] = now + int64(d)
			listed[ip] = true
		} else {
			got := l.Has(ips[ip])
			// expired entries are erased at every Has, whichever address is asked for
			for j := range ips {
				if listed[j] && until[j] < now {
					listed[j] = false
				}
			}
			vrt.Assert(got == listed[ip], "an address is black-listed from its latest Add until that Add's expiry, and only then")
		}
		now++ // one clock reading per operation
	}
	vrt.Cover("end")
}
